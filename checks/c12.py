"""C12 - rerun or skip of a failed task resumes the run correctly.

Engine explorer: programs in which one task fails (unhandled) are run under
all interleavings (bounded); at every point where a task is in ERROR the
operator may rerun it (new attempt with every outcome) or skip it.
Transition oracle right after the command: the task (SKIPPED for skip), its
workflow and every enclosing workflow / parent task are RUNNING; Terminal oracle: the
outcome is one the reference model allows for the same program in which the
task produced its new result (or was skipped) from the start."""
import json
import time

from checks import common
from mc import env, wfgen, wfscn, cmdscn, refmodel

PROP = 'C12'


class RerunScenario(cmdscn.CmdScenario):
    def spec(self):
        return ('checks.c12', 'RerunScenario', self.kwargs())

    INFLIGHT = 'execution-failed-while-the-rerun-request-was-in-flight'

    def _note_inflight(self, pre, post):
        """A workflow execution is failed (by a completion check or by the
        re-evaluation of a join) while the start request of a rerun is
        still in flight, i.e. while the task being rerun still looks
        failed."""
        pend = [m for m in env.W.msgs if m.method == 'start_task'
                and m.kwargs.get('rerun') == 'true']
        pend += [a for a in env.W.acts if not a.done and a.kind == 'msg'
                 and '.start_task' in a.desc and '"rerun": "true"' in a.desc]
        if not pend:
            return
        pre_w = {w['id']: w['state'] for w in pre['workflow_executions_v2']}
        pre_t = {t['id']: t['state'] for t in pre['task_executions_v2']}
        hit = any(pre_w.get(w['id']) in ('RUNNING', 'PAUSED') and
                  w['state'] == 'ERROR'
                  for w in post['workflow_executions_v2'])
        hit = hit or any(pre_t.get(t['id']) == 'WAITING' and
                         t['state'] == 'ERROR'
                         for t in post['task_executions_v2'])
        h = env.W.extra.setdefault('hist', [])
        if hit and self.INFLIGHT not in h:
            h.append(self.INFLIGHT)

    def check_step(self, pre, post, choice, ctx):
        v = []
        self._note_inflight(pre, post)
        tag = getattr(choice, 'tag', None) or ''
        for where, cls, is_mistral, text in ctx.new_exceptions:
            if not is_mistral:
                v.append('engine entry point failed with undeclared error '
                         '%s at %s: %s' % (cls, where, text))
        if tag in ('rerun', 'rerun_noreset', 'skip') \
                and not ctx.new_exceptions:
            tname = env.W.extra['cmds'][-1][1].split('.')[0]
            ts = [t for t in post['task_executions_v2']
                  if t['name'] == tname]
            ws = {w['id']: w for w in post['workflow_executions_v2']}
            tasks = {t['id']: t for t in post['task_executions_v2']}
            for t in ts:
                pre_t = [x for x in pre['task_executions_v2']
                         if x['id'] == t['id']]
                if not pre_t or pre_t[0]['state'] != 'ERROR':
                    continue
                if tag == 'skip':
                    if t['state'] != 'SKIPPED':
                        v.append('skip acknowledged but task %s is %s'
                                 % (tname, t['state']))
                # (a rerun re-starts the task through a start request sent
                # after the commit: the task itself may still be ERROR here;
                # its re-execution is judged by the terminal oracle)
                # the workflow and every ancestor run again
                w = ws[t['workflow_execution_id']]
                while w is not None:
                    if w['state'] not in ('RUNNING',) and not (
                            tag == 'skip' and w['state'] in
                            ('SUCCESS', 'ERROR')):
                        v.append('after %s of %s execution %s is %s, not '
                                 'RUNNING' % (tag, tname, w['name'],
                                              w['state']))
                    pt = tasks.get(w['task_execution_id'])
                    if pt is None:
                        break
                    if pt['state'] != 'RUNNING':
                        v.append('after %s of %s the parent task %s is %s, '
                                 'not RUNNING' % (tag, tname, pt['name'],
                                                  pt['state']))
                    w = ws.get(pt['workflow_execution_id'])
        return v

    OVERLAP = 'rerun-repeated-before-the-previous-rerun-restarted-the-task'

    def _note_history(self, kind):
        super(RerunScenario, self)._note_history(kind)
        if kind in ('rerun', 'rerun_noreset', 'skip'):
            # the same failure commanded twice: the previous rerun's start
            # request is still in flight (the task is still ERROR)
            pend = any(m.method == 'start_task' and
                       m.kwargs.get('rerun') == 'true' for m in env.W.msgs)
            h = env.W.extra.setdefault('hist', [])
            if pend and self.OVERLAP not in h:
                h.append(self.OVERLAP)

    def models_for_history(self):
        """Allowed outcome sets.  Normally one: every rerun consumed one
        result of the task.  When a rerun was repeated for the same failure
        (issued again before the previous one restarted the task) the two
        commands may count as one rerun or as two."""
        out = [self.model_for_history()]
        if self.OVERLAP in env.W.extra.get('hist', []):
            cmds = env.W.extra.get('cmds', [])
            n = sum(1 for c in cmds if c[0] in ('rerun', 'rerun_noreset'))
            for drop in range(1, n):
                out.append(self.model_for_history(drop_reruns=drop))
        return out

    def model_for_history(self, drop_reruns=0):
        cmds = list(env.W.extra.get('cmds', []))
        for _ in range(drop_reruns):
            for i in range(len(cmds) - 1, -1, -1):
                if cmds[i][0] in ('rerun', 'rerun_noreset'):
                    del cmds[i]
                    break
        res = {k: list(v) for k, v in self.results.items()}
        skipped = set()
        for kind, tname in cmds:
            key = self.prog['tasks'].get(tname, {}).get('key', tname)
            if kind in ('rerun', 'rerun_noreset'):
                if len(res.get(key, [])) > 1:
                    res[key] = res[key][1:]
            elif kind == 'skip':
                skipped.add(tname)
        ck = json.dumps([sorted(res.items()), sorted(skipped)])
        cache = self.__dict__.setdefault('_mcache', {})
        if ck not in cache:
            cache[ck] = refmodel.allowed_outcomes(
                self.prog, self.wf_input, res, skipped=skipped)
        return cache[ck]

    def check_terminal(self, snap, ctx):
        if any(w['state'] == 'PAUSED'
               for w in snap['workflow_executions_v2']):
            # paused by the operator and not resumed in this run
            return json.dumps(wfscn.outcome_of(snap, with_ctx=False),
                              sort_keys=True, default=str), []
        key, v = wfscn.WfScenario.check_terminal(self, snap, ctx)
        ms = self.models_for_history()
        m = ms[0]
        impl = refmodel.project_impl(wfscn.outcome_of(snap))
        # the re-executed task keeps its history of attempts: compare what
        # the model defines (states, published, output), not stored contexts
        if not any(x['truncated'] for x in ms) and not any(
                refmodel.matches(impl, o, True, False)
                for x in ms for o in x['outcomes']):
            v.append('terminal outcome after %s differs from the run in '
                     'which the task had its new result from the start: '
                     'impl=%s allowed=%s' % (
                         env.W.extra.get('cmds'),
                         json.dumps(impl, sort_keys=True)[:700],
                         json.dumps(m['outcomes'][:3], sort_keys=True)[:900]))
        return key, v


from checks.c07 import ItemsScenario, make_prog   # noqa: E402


class SubRerunScenario(ItemsScenario):
    """Failed tasks inside the sub-workflows of a with-items task are rerun
    (several reruns in flight): the parent task must wait for every
    re-executed child and the run must end as if the children had
    succeeded the first time."""

    # several tasks of the same name (one per child): a command is always
    # identified by the task it targets
    label_by_id = True

    def __init__(self, name, prog, items_to_rerun=None, **kw):
        super(SubRerunScenario, self).__init__(name, prog, **kw)
        self.items_to_rerun = items_to_rerun if items_to_rerun is not None \
            else len(self.items)

    def kwargs(self):
        d = super(SubRerunScenario, self).kwargs()
        d['items_to_rerun'] = self.items_to_rerun
        return d

    def spec(self):
        return ('checks.c12', 'SubRerunScenario', self.kwargs())

    def check_step(self, pre, post, choice, ctx):
        v = super(SubRerunScenario, self).check_step(pre, post, choice, ctx)
        tag = getattr(choice, 'tag', None) or ''
        if tag == 'rerun' and not ctx.new_exceptions:
            ws = {w['id']: w for w in post['workflow_executions_v2']}
            tasks = {t['id']: t for t in post['task_executions_v2']}
            root = [w for w in ws.values() if not w['task_execution_id']][0]
            if root['state'] != 'RUNNING':
                v.append('after the rerun of a task inside a sub-workflow '
                         'the root execution is %s, not RUNNING'
                         % root['state'])
            a = [t for t in tasks.values() if t['name'] == 'a'
                 and t['workflow_execution_id'] == root['id']]
            if a and a[0]['state'] != 'RUNNING':
                v.append('after the rerun of a task inside a sub-workflow '
                         'the parent task a is %s, not RUNNING'
                         % a[0]['state'])
        return v

    def externals(self):
        done = set(c[1] for c in env.W.extra.get('cmds', []))
        return [c for c in super(SubRerunScenario, self).externals()
                if c.label.split(':', 2)[-1] not in done]

    def check_terminal(self, snap, ctx):
        key, v = super(SubRerunScenario, self).check_terminal(snap, ctx)
        n_rerun = len(set(c[1] for c in env.W.extra.get('cmds', [])
                          if c[0] == 'rerun'))
        root = [w for w in snap['workflow_executions_v2']
                if not w['task_execution_id']][0]
        if n_rerun == self.items_to_rerun \
                and 'rerun-before' not in \
                ' '.join(env.W.extra.get('hist', [])):
            if root['state'] != 'SUCCESS':
                v.append('every failed child task was rerun successfully but '
                         'the root execution ended %s' % root['state'])
            bs = [t for t in snap['task_executions_v2'] if t['name'] == 'b']
            if len(bs) != 1:
                v.append('successor b of the with-items task exists %d '
                         'times after the reruns' % len(bs))
        return key, v


class PolicyRerunScenario(RerunScenario):
    """A with-items task with a retry policy exhausts its retries and is
    rerun without reset: the new run of the task has its full retry budget
    again (a rerun starts the task's policies afresh), so an attempt that
    fails once more is retried.  `expect` = state of the root after one
    rerun, `expect_none` = without any."""

    def __init__(self, name, prog, expect='SUCCESS', expect_none='ERROR',
                 **kw):
        super(PolicyRerunScenario, self).__init__(name, prog, **kw)
        self.expect, self.expect_none = expect, expect_none

    def kwargs(self):
        d = super(PolicyRerunScenario, self).kwargs()
        d.update(expect=self.expect, expect_none=self.expect_none)
        return d

    def spec(self):
        return ('checks.c12', 'PolicyRerunScenario', self.kwargs())

    def check_terminal(self, snap, ctx):
        key, v = wfscn.WfScenario.check_terminal(self, snap, ctx)
        n = len(env.W.extra.get('cmds', []))
        root = [w for w in snap['workflow_executions_v2']
                if not w['task_execution_id']][0]
        want = self.expect if n else self.expect_none
        if root['state'] != want:
            v.append('with-items task with retry, %d rerun(s) without reset: '
                     'the run ended %s, expected %s (item runs: %s)'
                     % (n, root['state'], want,
                        sorted(env.W.runs.items())))
        return key, v


def programs():
    T, direct = wfgen.T, wfgen.direct
    C = wfgen.curated()
    P = {}
    P['seq3'] = C['seq3']
    P['fork2'] = C['fork2']
    P['diamond'] = C['diamond']
    P['join_two_starts'] = C['join_two_starts']
    P['publish_seq'] = C['publish_seq']
    P['skip_routes'] = direct({
        'a': T(**{'on-success': ['b'], 'on-skip': ['c'],
                  'publish-on-skip': {'v': ['lit', 9]}}),
        'b': T(), 'c': T(publish={'w': ['var', 'v']})},
        input={'v': 0})
    P['retry_then_rerun'] = direct({
        'a': T(retry={'count': 1, 'delay': 0}, **{'on-success': ['b']}),
        'b': T()})
    return P


def scenarios(tier):
    quick = tier == 'quick'
    jobs = []
    for pname, prog in programs().items():
        keys = wfgen.action_keys(prog)
        for fk in keys:
            for second in ('S', 'E'):
                res = {k: ['S'] for k in keys}
                res[fk] = ['E', second]
                if pname == 'retry_then_rerun':
                    if fk != 'a':
                        continue
                    res[fk] = ['E', 'E', second]
                tag = '%s=E%s' % (fk, second)
                for mname, menu, n in (
                        ('rerun', ['rerun'], 1),
                        ('skip', ['skip'], 1),
                        ('rerun_twice', ['rerun'], 2)):
                    if mname == 'rerun_twice' and (quick or second == 'S'):
                        continue
                    if mname == 'skip' and second == 'E':
                        continue
                    r2 = dict(res)
                    if mname == 'rerun_twice':
                        r2[fk] = ['E', 'E', 'S']
                    scn = RerunScenario(
                        '%s/%s/%s' % (pname, mname, tag), prog, results=r2,
                        menu=menu, max_cmds=n, only_tasks=[
                            t for t, d in prog['tasks'].items()
                            if d.get('key', t) == fk])
                    jobs.append((scn, 0 if quick else 1,
                                 40 if quick else 1200, 1))
    # the re-executed task finishes while the workflow is paused: rerun,
    # then pause at every later point, then resume
    P = programs()
    for pname in ('seq3', 'fork2'):
        prog = P[pname]
        keys = wfgen.action_keys(prog)
        for fk in keys[:2]:
            res = {k: ['S'] for k in keys}
            res[fk] = ['E', 'S']
            scn = RerunScenario(
                '%s/rerun_pause_resume/%s=ES' % (pname, fk), prog,
                results=res, menu=['rerun', 'pause', 'resume'], max_cmds=3,
                sequences=[['rerun', 'pause', 'resume']],
                only_tasks=[t for t, d in prog['tasks'].items()
                            if d.get('key', t) == fk])
            jobs.append((scn, 0 if quick else 1, 60 if quick else 1200, 1))
    # reruns inside the sub-workflows of a with-items task, several in flight
    prog = make_prog(2, None, sub=True)
    prog['tasks']['a'].pop('on-complete')
    prog['tasks']['a']['on-success'] = ['b']
    res = {'i0': ['E', 'S'], 'i1': ['E', 'S'], 'b': ['S']}
    scn = SubRerunScenario('items_subwf/rerun_children/EE', prog,
                           items=['i0', 'i1'], results=res, menu=['rerun'],
                           max_cmds=2, only_tasks=['s'], compare_ctx=False)
    jobs.append((scn, 0 if quick else 1, 60 if quick else 1200, 1))
    res = {'i0': ['S'], 'i1': ['E', 'S'], 'b': ['S']}
    scn = SubRerunScenario('items_subwf/rerun_children/SE', prog,
                           items=['i0', 'i1'], results=res, menu=['rerun'],
                           max_cmds=1, only_tasks=['s'], compare_ctx=False)
    scn.items_to_rerun = 1
    jobs.append((scn, 1 if quick else 2, 60 if quick else 1200, 1))
    # policies survive a rerun without reset: retry budget and waits
    for pol, res0, devs in (
            ({'count': 1, 'delay': 0}, ['E', 'E', 'E', 'S'], 0),
            ({'count': 2, 'delay': 0}, ['E', 'E', 'E', 'E', 'E', 'S'], 0)):
        prog = make_prog(2, None, retry=pol)
        prog['tasks']['a'].pop('on-complete')
        prog['tasks']['a']['on-success'] = ['b']
        scn = PolicyRerunScenario(
            'items_retry%d/rerun_noreset' % pol['count'], prog,
            results={'i0': res0, 'i1': ['S'], 'b': ['S']},
            menu=['rerun_noreset'], max_cmds=1, only_tasks=['a'],
            compare_ctx=False)
        jobs.append((scn, 0 if quick else 1, 60 if quick else 1200, 1))
    # the same with a concurrency limit on the with-items task (the slot
    # accounting must survive a child that is repaired from the inside)
    for n, conc, o in ((2, 1, 'SE'), (2, 2, 'ES'), (3, 2, 'SSE'),
                       (3, 2, 'ESS')):
        prog = make_prog(n, conc, sub=True)
        prog['tasks']['a'].pop('on-complete')
        prog['tasks']['a']['on-success'] = ['b']
        res = {'i%d' % k: ([o[k]] if o[k] == 'S' else ['E', 'S'])
               for k in range(n)}
        res['b'] = ['S']
        scn = SubRerunScenario(
            'items_subwf_c%d/rerun_children/%s' % (conc, o), prog,
            items=['i%d' % k for k in range(n)], concurrency=conc,
            results=res, menu=['rerun'], max_cmds=1, only_tasks=['s'],
            compare_ctx=False, items_to_rerun=1)
        jobs.append((scn, 0 if quick else 1, 60 if quick else 1200, 1))
    # the rerun inside a child while the parent execution is still RUNNING
    # for another reason (a parallel branch held by wait-before): the parent
    # task - ERROR - must be put back to RUNNING all the same.  No completion
    # check of the failure is pending here, so none of the known rerun
    # histories is involved
    for o in ('SE', 'EE'):
        prog = make_prog(2, None, sub=True)
        prog['tasks']['a'].pop('on-complete')
        prog['tasks']['a']['on-success'] = ['b']
        prog['tasks']['p'] = wfgen.T(**{'wait-before': 3})
        res = {'i%d' % k: ([o[k]] if o[k] == 'S' else ['E', 'S'])
               for k in range(2)}
        res['b'] = ['S']
        res['p'] = ['S']
        scn = SubRerunScenario(
            'items_subwf_parallel_branch/rerun_children/%s' % o, prog,
            items=['i0', 'i1'], results=res, menu=['rerun'],
            max_cmds=o.count('E'), only_tasks=['s'], compare_ctx=False,
            items_to_rerun=o.count('E'))
        jobs.append((scn, 0 if quick else 1, 60 if quick else 1200, 1))
    # the database refuses the first commit of every rerun / skip command
    # as a deadlock victim: the engine retries the transaction
    for scn, bound, secs, na in list(jobs):
        if not getattr(scn, 'rp', False) and hasattr(scn, 'cmd_db_fault'):
            jobs.append((common.variant(scn, '/dbretry', cmd_db_fault=True),
                         0, secs, na))
    return jobs


def main(tier):
    rep = common.Report(PROP, tier)
    jobs = common.rotate(scenarios(tier))
    deadline = time.time() + (270 if tier == 'quick' else 1500)
    res = common.parallel_map(common.explore_job, jobs, deadline=deadline)
    rep.add_explore_results(jobs, res)
    rep.assumptions = [
        'failed tasks without on-error / on-complete handlers (so that "as '
        'if it had produced its new result the first time" is well defined)',
        'rerun / skip delivered at the point where they are issued; '
        'reset=False only for with-items tasks (API rule)',
    ]
    return rep.finish(
        rule='programs x (which task fails, outcome of the new attempt) x '
             'rerun / skip / repeated rerun issued at every point where the '
             'task is in ERROR x interleavings within the bound; transition '
             'oracle after the command, terminal oracle against the '
             'reference model with the new result')
