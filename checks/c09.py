"""C09 - a sub-workflow and its parent task stay consistent.

Engine explorer over nesting depth <= 2 (3 thorough): child called by global
name, by workbook-relative name (real workbook), by an expression; from a
plain and from a with-items task; started in-process and through the message
bus; child outcomes SUCCESS / ERROR / CANCELLED (stop on the child at every
point); environment on the root read by the child through env(); an
undeclared input key passed by the parent.  All interleavings within the
bound, including the synchronous post-commit hand-off of the child result.
Oracles (terminal unless said otherwise): parent task state = child state
and task result = child output; the parent's successors exist once per
completion; every descendant records the root execution id and the caller's
namespace; the child evaluated env() against the root's environment; an
undeclared input key is in the child's params; per step: each finished child
reports to its parent at most once; root-level outcome allowed by the
reference model (child = nested model run)."""
import json
import time

from checks import common
from mc import env, wfgen, wfscn, cmdscn, refmodel

PROP = 'C09'
FINAL = ('SUCCESS', 'ERROR', 'CANCELLED')


class SubScenario(cmdscn.CmdScenario):
    def spec(self):
        return ('checks.c09', 'SubScenario', self.kwargs())

    def setup(self):
        super(SubScenario, self).setup()
        env.W.extra['reports'] = {}

    def extra_state(self):
        return [super(SubScenario, self).extra_state(),
                sorted(env.W.extra['reports'].items())]

    def check_step(self, pre, post, choice, ctx):
        v = []
        for where, cls, is_mistral, text in ctx.new_exceptions:
            if not is_mistral and 'already completed' not in text:
                v.append('engine entry point failed with undeclared error '
                         '%s at %s: %s' % (cls, where, text))
        rep = env.W.extra['reports']
        for (seq, topic, method, short, sender) in ctx.new_msgs:
            if method == 'on_action_complete' and \
                    '"wf_action": "true"' in short:
                k = json.loads(short).get('action_ex_id')
                rep[k] = rep.get(k, 0) + 1
                if rep[k] > 1:
                    v.append('completion of one sub-workflow reported to '
                             'the parent %d times' % rep[k])
        return v

    def check_terminal(self, snap, ctx):
        stopped = any(c[0].startswith('stop')
                      for c in env.W.extra.get('cmds', []))
        if stopped:
            key, v = wfscn.WfScenario.check_terminal(self, snap, ctx)
        else:
            key, v = super(SubScenario, self).check_terminal(snap, ctx)
        ws = {w['id']: w for w in snap['workflow_executions_v2']}
        tasks = {t['id']: t for t in snap['task_executions_v2']}
        roots = [w for w in ws.values() if not w['task_execution_id']]
        root = roots[0]
        rparams = wfscn.jl(root['params']) or {}
        rep = env.W.extra['reports']
        for w in ws.values():
            if not w['task_execution_id']:
                continue
            pt = tasks.get(w['task_execution_id'])
            if pt is None:
                v.append('sub-workflow %s has no parent task' % w['name'])
                continue
            spec = wfscn.jl(pt['spec']) if 'spec' in pt else None
            with_items = 'with-items' in json.dumps(
                self.prog['tasks'].get(pt['name'], {})) or any(
                'with-items' in json.dumps(s['tasks'].get(pt['name'], {}))
                for s in (self.prog.get('subs') or {}).values())
            if w['root_execution_id'] != root['id']:
                v.append('sub-workflow %s records root execution %s instead '
                         'of the root' % (w['name'], w['root_execution_id']))
            params = wfscn.jl(w['params']) or {}
            if params.get('namespace', '') != rparams.get('namespace', ''):
                v.append('sub-workflow %s runs in namespace %r, the caller '
                         'in %r' % (w['name'], params.get('namespace'),
                                    rparams.get('namespace')))
            # a retried sub-workflow task has one child per attempt: only
            # the accepted one is the task's result
            sibs = [x for x in ws.values()
                    if x['task_execution_id'] == w['task_execution_id']]
            superseded = len(sibs) > 1 and not w['accepted'] and any(
                x['id'] > w['id'] for x in sibs)
            if not with_items and len(sibs) > 1 and w is sibs[0]:
                n_acc = sum(1 for x in sibs if x['accepted'])
                if pt['state'] in FINAL and n_acc != 1:
                    v.append('task %s ran %d sub-workflows (retry) and %d '
                             'of them count as its result, not exactly the '
                             'last one' % (pt['name'], len(sibs), n_acc))
            if w['state'] in FINAL and not with_items and not stopped \
                    and not superseded:
                if pt['state'] != w['state']:
                    v.append('sub-workflow %s is %s but its parent task %s '
                             'is %s' % (w['name'], w['state'], pt['name'],
                                        pt['state']))
            if w['state'] in FINAL:
                n = rep.get(json.dumps(w['id']), 0)
                if n != 1:
                    v.append('finished sub-workflow %s reported to its '
                             'parent %d times' % (w['name'], n))
            extra = self.meta.get('undeclared')
            if extra and w['name'] == extra[0]:
                if params.get(extra[1]) != extra[2]:
                    v.append('undeclared input key %s of sub-workflow %s was '
                             'dropped (params=%s)' % (extra[1], w['name'],
                                                      sorted(params)))
        # successors of a sub-workflow task exist once per completion
        cnt = {}
        for t in tasks.values():
            k = (t['workflow_execution_id'], t['name'])
            cnt[k] = cnt.get(k, 0) + 1
        for (wid, name), n in cnt.items():
            if n > 1 and not stopped:
                v.append('task %s exists %d times in one execution: the '
                         'parent continued more than once' % (name, n))
        return key, v


def programs():
    T, direct = wfgen.T, wfgen.direct
    P = {}
    leaf = direct({'s1': T(key='s1', publish={'e': ['env', 'who']},
                           **{'on-success': ['s2']}),
                   's2': T(key='s2')},
                  input={'k': 0}, output={'k': ['var', 'k'],
                                          'e': ['var', 'e']})
    P['by_name'] = (direct(
        {'a': T(workflow='sub', publish={'r': ['result']},
                **{'wf-input': {'k': ['lit', 1]}, 'on-success': ['b'],
                   'on-error': ['c']}),
         'b': T(), 'c': T()}, subs={'sub': leaf}), {})
    P['undeclared_key'] = (direct(
        {'a': T(workflow='sub',
                **{'wf-input': {'k': ['lit', 1], 'extra': ['lit', 7]},
                   'on-complete': ['b']}),
         'b': T()}, subs={'sub': leaf}),
        {'meta': {'undeclared': ['sub', 'extra', 7]}})
    # how the task input splits into the child's input and its params, for
    # every way the child declares input (not at all / with a default) x
    # what the parent passes (nothing / declared / undeclared / both)
    for dname, dinput in (('noinput', None), ('default', {'k': 0})):
        child = direct({'s1': T(key='s1')}, input=dinput,
                       output=({'k': ['var', 'k']} if dinput else None))
        for pname, passed in (('nothing', None), ('declared', {'k': 1}),
                              ('undeclared', {'extra': 7}),
                              ('both', {'k': 1, 'extra': 7})):
            kw = {'on-complete': ['b']}
            if passed is not None:
                kw['wf-input'] = {k: ['lit', x] for k, x in passed.items()}
            meta = {}
            und = [k for k in (passed or {}) if k not in (dinput or {})]
            if und:
                meta = {'meta': {'undeclared': ['sub', sorted(und)[0],
                                                passed[sorted(und)[0]]]}}
            P['split_%s_%s' % (dname, pname)] = (direct(
                {'a': T(workflow='sub', publish={'r': ['result']}, **kw),
                 'b': T()}, subs={'sub': child}), meta)
    mid = direct({'m1': T(workflow='sub', publish={'mr': ['result']},
                          **{'wf-input': {'k': ['lit', 2]}})},
                 output={'mr': ['var', 'mr']})
    P['depth2'] = (direct(
        {'a': T(workflow='mid', publish={'r': ['result']},
                **{'on-complete': ['b']}), 'b': T()},
        subs={'mid': mid, 'sub': leaf}), {})
    P['parallel_children'] = (direct(
        {'a': T(workflow='sub', **{'wf-input': {'k': ['lit', 1]}}),
         'b': T(workflow='sub', **{'wf-input': {'k': ['lit', 2]}})},
        subs={'sub': direct({'s1': T(key='s1')}, input={'k': 0})}), {})
    # caller in namespace N; the middle workflow only exists in the default
    # namespace (resolved through the fallback), the leaf exists in both
    leafn = direct({'s1': T(key='s1')}, input={'k': 0},
                   output={'k': ['var', 'k']})
    midn = direct({'m1': T(workflow='sub', publish={'mr': ['result']},
                           **{'wf-input': {'k': ['lit', 2]}})},
                  output={'mr': ['var', 'mr']})
    P['namespaces'] = (direct(
        {'a': T(workflow='mid', publish={'r': ['result']})},
        subs={'mid': midn, 'sub': leafn}),
        {'meta': {'namespaces': {'wf': ['N'], 'mid': [''],
                                 'sub': ['N', '']},
                  'root_namespace': 'N'}})
    # retry around a sub-workflow task: every attempt is a new child; only
    # the last one counts (continue-on repeats a successful child)
    P['retry_continue_on'] = (direct(
        {'a': T(workflow='sub', publish={'r': ['result']},
                retry={'count': 1, 'delay': 0, 'continue-on': ['true']},
                **{'wf-input': {'k': ['lit', 1]}, 'on-success': ['b'],
                   'on-error': ['c']}),
         'b': T(), 'c': T()}, subs={'sub': leaf}), {})
    P['retry_child_fails_once'] = (direct(
        {'a': T(workflow='sub', publish={'r': ['result']},
                retry={'count': 1, 'delay': 0},
                **{'wf-input': {'k': ['lit', 1]}, 'on-success': ['b'],
                   'on-error': ['c']}),
         'b': T(), 'c': T()}, subs={'sub': leaf}),
        {'assigns': [{'s1': ['E', 'S'], 's2': ['S'], 'a': ['S'],
                      'b': ['S'], 'c': ['S']}]})
    # the same shapes inside a workbook (members call each other by their
    # short names, resolved to <workbook>.<name>)
    wb = wfgen.clone(P['by_name'][0])
    wb['workbook'] = 'wb'
    P['workbook_relative'] = (wb, {'wf': 'wb.wf', 'workbook': True})
    wb2 = wfgen.clone(P['depth2'][0])
    wb2['workbook'] = 'wb'
    P['workbook_depth2'] = (wb2, {'wf': 'wb.wf', 'workbook': True})
    # name shapes: the workbook's name contains the caller's own short name
    # (members are resolved relative to "<workbook>." cut off the caller's
    # full name), with and without a standalone namesake of the child
    for wbname in ('wf_flows', 'wfwf', 'x.wf'):
        w = wfgen.clone(P['depth2'][0])
        w['workbook'] = wbname
        P['workbook_name_%s' % wbname.replace('.', '_dot_')] = (
            w, {'wf': '%s.wf' % wbname, 'workbook': True})
    # the child's name is the value of an expression
    ex = wfgen.clone(P['by_name'][0])
    ex['input'] = {'child': 'sub'}
    ex['tasks']['a']['workflow-expr'] = ['var', 'child']
    P['by_expression'] = (ex, {})
    return P


def scenarios(tier):
    quick = tier == 'quick'
    jobs = []
    for pname, (prog, extra) in programs().items():
        keys = ['s1', 's2'] + wfgen.action_keys(prog)
        keys = [k for k in dict.fromkeys(keys)]
        assigns = [{k: ['S'] for k in keys},
                   {k: ['E' if k == 's1' else 'S'] for k in keys},
                   {k: ['E' if k == 's2' else 'S'] for k in keys}]
        if extra.get('assigns'):
            assigns = extra['assigns']
            extra = {k: v for k, v in extra.items() if k != 'assigns'}
        for res in assigns[:(2 if quick and pname != 'by_name' else 3)]:
            tag = ''.join(res[k][0] for k in sorted(res))
            for rpc in (False, True):
                if quick and rpc and pname not in ('by_name', 'depth2',
                                                   'workbook_relative'):
                    continue
                ov = [('start_subworkflows_via_rpc', rpc, 'engine')]
                kw = dict(extra)
                scn = SubScenario(
                    '%s/%s/%s' % (pname, 'rpc' if rpc else 'inproc', tag),
                    prog, results=res, overrides=ov,
                    params={'env': {'who': 'root-env'}},
                    compare_ctx=False, **kw)
                jobs.append((scn, 1 if quick else 3,
                             40 if quick else 1200, 1))
        # child stopped / cancelled at every point
        res = {k: ['S'] for k in keys}
        scn = SubScenario('%s/stop_child/%s' % (pname, 'S' * len(keys)),
                          prog, results=res,
                          params={'env': {'who': 'root-env'}},
                          menu=['stop_sub:CANCELLED', 'stop_sub:ERROR',
                                'stop_sub:SUCCESS'],
                          max_cmds=1, compare_ctx=False, **dict(extra))
        jobs.append((scn, 0 if quick else 1, 40 if quick else 1200, 1))
    return jobs


def main(tier):
    rep = common.Report(PROP, tier)
    jobs = common.rotate(scenarios(tier))
    deadline = time.time() + (170 if tier == 'quick' else 1500)
    res = common.parallel_map(common.explore_job, jobs, deadline=deadline)
    rep.add_explore_results(jobs, res)
    rep.assumptions = [
        'children called by global name, by workbook-relative name (real '
        'workbook) and by an expression-valued name',
        'transactions are atomic steps; the synchronous report of the child '
        'to the parent blocks the sending post-commit chain until handled',
    ]
    return rep.finish(
        rule='nesting shapes x child outcomes x {in-process, via RPC} x stop '
             'of the child at every point x interleavings within the bound; '
             'oracles as in the module docstring')
