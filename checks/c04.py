"""C04 - no task starts before its prerequisites; a join runs exactly once.

Engine explorer over fork/join shapes (join all / one / N, nested joins,
joins fed by on-error / on-complete / guarded routes, impossible routes) and
all requires-DAGs on <= 3 (4) tasks x every target, x result assignments x
all interleavings (capture / invoke / delete of the refresh job against
branch completions).  Transition oracle on consecutive DB images + terminal
oracle (reference model)."""
import time

from checks import common
from mc import wfgen, wfscn

PROP = 'C04'


def pick_assignments(prog, quick):
    assigns = wfgen.result_assignments(prog)
    if quick and len(assigns) > 8:
        keys = wfgen.action_keys(prog)
        pick = [{k: ['S'] for k in keys}]
        for k in keys:
            pick.append({x: ['E' if x == k else 'S'] for x in keys})
        return pick
    return assigns


def scenarios(tier):
    quick = tier == 'quick'
    jobs = []
    QUICK_SKIP = ('jone_on-error', 'jone_on-complete', 'j2_on-error',
                  'j2_on-complete', 'j2_mixed', 'j2_guards', 'jone_handler',
                  'j2_handler', 'diamond_complete', 'join_then')
    for name, prog in wfgen.join_shapes().items():
        if quick and name.startswith(QUICK_SKIP):
            continue
        n = wfgen.program_size(prog)
        for ai, res in enumerate(pick_assignments(prog, quick)):
            tag = ''.join(res[k][0] for k in sorted(res))
            for sched in (('legacy', 'default_mem') if (ai == 0 or not quick)
                          else ('legacy',)):
                scn = wfscn.ProgScenario(
                    '%s/%s/%s' % (name, tag, sched), prog, results=res,
                    check_prereq=True, scheduler=sched)
                bound = None if (n <= 3 or not quick) else 2
                if sched != 'legacy':
                    bound = 2 if quick else 3
                if quick and n >= 5 and ai >= 3 and 'nested' not in name:
                    continue
                jobs.append((scn, bound, 40 if quick else 1200, 1, 'join',
                             ai))
                if sched == 'legacy' and (ai == 0 or not quick):
                    # join creation (named lock) and refresh overlapping
                    # with branch completions
                    jobs.append((common.variant(scn, '/overlap', rp=True),
                                 1 if quick else 2, 40 if quick else 1200,
                                 1, 'join', ai + 0.5))
                if sched == 'default_mem' and ai == 0:
                    # two refresh jobs of one join overlapping: the second
                    # is scheduled while the first is being processed (the
                    # DefaultScheduler only suppresses a duplicate of a job
                    # nobody has captured yet) and overtakes it between its
                    # unlocked read of the join and the named lock
                    jobs.append((common.variant(scn, '/overlap', rp=True),
                                 2 if quick else 3, 40 if quick else 1200,
                                 1, 'join', ai + 0.6))
    for name, (prog, target) in wfgen.reverse_shapes(
            3 if quick else 4).items():
        n = wfgen.program_size(prog)
        assigns = wfgen.result_assignments(prog)
        if quick:
            assigns = pick_assignments(prog, True)[:4]
        for ai, res in enumerate(assigns):
            tag = ''.join(res[k][0] for k in sorted(res))
            scn = wfscn.ProgScenario(
                '%s/%s' % (name, tag), prog, results=res, check_prereq=True,
                params={'task_name': target})
            jobs.append((scn, None if n <= 3 else 3, 40 if quick else 600,
                         1, 'reverse', ai))
    # every program first with its first assignment, then the second, ...
    jobs.sort(key=lambda j: j[5])
    return jobs


def main(tier):
    rep = common.Report(PROP, tier)
    jobs = scenarios(tier)
    deadline = time.time() + (300 if tier == 'quick' else 1500)
    res = common.parallel_map(common.explore_job,
                              [j[:4] for j in jobs], deadline=deadline)
    for klass in ('join', 'reverse'):
        idx = [i for i, j in enumerate(jobs) if j[4] == klass]
        rep.add_explore_results([jobs[i] for i in idx],
                                [res[i] for i in idx], klass)
    rep.assumptions = [
        'transactions are atomic steps except in the /overlap scenarios, '
        'where a transaction may be overtaken between its reads and its '
        'first write / named lock (READ COMMITTED): join creation and '
        'refresh against branch completions and against a second refresh',
        'one instance of every inbound task per run (DAG programs)',
    ]
    return rep.finish(
        rule='fork/join shapes and requires-DAGs x result assignments; DFS '
             'over interleavings of engine steps; every transition checked: '
             'a join moving to RUNNING has the required number of completed '
             'inbound tasks routed to it, one execution and one start per '
             'join, reverse tasks created only after their requirements '
             'succeeded, each once; terminal outcome in the reference set')
