"""C01 - every workflow run finishes with the outcome its definition
prescribes.  Engine explorer over generated programs x result assignments x
all interleavings; oracles: quiescence/final-state invariants, declared
error types only, membership of the terminal outcome in the reference
model's allowed set."""
import json
import time

from checks import common
from mc import wfgen, wfscn

PROP = 'C01'

EXHAUST_SIZE = 3        # programs up to this many tasks are exhausted


def scenarios(tier):
    P = dict(wfgen.curated())
    # joins behind joins, joins whose inbound routes never fire
    J = wfgen.join_shapes()
    for k in ('nested_inner_never_triggered', 'nested_inner_triggered',
              'jall_chain_inbound', 'jall_impossible_route',
              'two_joins_same_inbound',
              'inbound_two_parents_onerror_p1',
              'inbound_two_parents_oncomplete_p1',
              'inbound_two_parents_onerror_p2'):
        if k in J:
            P[k] = J[k]
    jobs = []
    quick = tier == 'quick'
    for name, prog in P.items():
        n = wfgen.program_size(prog)
        assigns = wfgen.result_assignments(prog)
        if quick and len(assigns) > 8:
            # all-success, each single failure, all-failure
            keys = wfgen.action_keys(prog)
            pick = [{k: ['S'] for k in keys}]
            for k in keys:
                pick.append({x: ['E' if x == k else 'S'] for x in keys})
            pick.append({k: ['E'] for k in keys})
            assigns = pick
        if name == 'items_parallel':
            assigns = [
                {'a0': ['S'], 'a1': ['S'], 'b0': ['S'], 'b1': ['S'],
                 'c': ['S']},
                {'a0': ['S'], 'a1': ['E'], 'b0': ['S'], 'b1': ['S'],
                 'c': ['S']},
                {'a0': ['S'], 'a1': ['S'], 'b0': ['E'], 'b1': ['S'],
                 'c': ['S']}]
        if name.startswith('cyc_'):
            # the second pass through the loop fails
            keys = wfgen.action_keys(prog)
            assigns = assigns + [
                {x: (['S', 'E'] if x == k else ['S']) for x in keys}
                for k in keys if k not in ('s', 'c', 'h')]
        for ai, res in enumerate(assigns):
            tag = ''.join(''.join(res[k]) for k in sorted(res))
            scn = wfscn.ProgScenario('%s/%s' % (name, tag), prog, results=res,
                                     compare_ctx=(name != 'items_parallel'))
            if n <= EXHAUST_SIZE:
                bound = None
            else:
                bound = 2 if quick else None
            jobs.append((scn, bound, 60 if quick else 900, 1, ai))
            if ai == 0 or (not quick and ai < 3):
                # transactions may overlap before their first write
                jobs.append((common.variant(scn, '/overlap', rp=True),
                             1 if quick else 2, 60 if quick else 900, 1,
                             ai + 0.6))
            if ai == 0 and name in ('seq2', 'fork2', 'diamond',
                                    'join_two_starts', 'join_one',
                                    'err_route', 'publish_join', 'cyc_seq',
                                    'nested_join', 'cmd_fail'):
                # two executions of the same workflow side by side (shared
                # caches, scheduler keys, locks): each must end correctly
                jobs.append((common.variant(scn, '/x2', copies=2),
                             1 if quick else 2, 60 if quick else 900, 1,
                             ai + 0.65))
            has_join = any(t.get('join') for t in prog['tasks'].values())
            if has_join and (ai < 2 or not quick):
                # joins are refreshed through scheduler jobs: the same
                # scenario over the real DefaultScheduler (in-memory
                # dispatcher + pool jobs as separate steps)
                jobs.append((common.variant(scn, '/dm',
                                            scheduler='default_mem'),
                             2 if quick else 3, 60 if quick else 900, 1,
                             ai + 0.5))
    # every direct DAG shape over <= 3 tasks (on-success / on-error edges
    # to <= 2 later tasks, join all / one / none on multi-inbound tasks),
    # enumerated simplest first; exhausted
    for n in (1, 2, 3):
        for i, prog in enumerate(wfgen.enumerate_direct(n)):
            assigns = wfgen.result_assignments(prog)
            if quick:
                # all succeed; exactly the tasks that have an on-error
                # route fail; all fail
                keys = wfgen.action_keys(prog)
                herr = {k: ['E' if prog['tasks'][k].get('on-error') else 'S']
                        for k in keys}
                pick = [{k: ['S'] for k in keys}, herr,
                        {k: ['E'] for k in keys}]
                assigns = [a for j, a in enumerate(pick)
                           if a not in pick[:j]]
            for ai, res in enumerate(assigns):
                tag = ''.join(res[k][0] for k in sorted(res))
                scn = wfscn.ProgScenario('enum%d.%d/%s' % (n, i, tag), prog,
                                         results=res)
                jobs.append((scn, None, 60 if quick else 900, 1, ai + 0.7))
    # reverse workflows: every requires-graph over <= 3 tasks x every target
    # (with and without a requirement from task-defaults)
    for name, (prog, target) in wfgen.reverse_shapes(3).items():
        assigns = wfgen.result_assignments(prog)
        if quick and len(assigns) > 4:
            keys = wfgen.action_keys(prog)
            assigns = [{k: ['S'] for k in keys}] + [
                {x: ['E' if x == k else 'S'] for x in keys} for k in keys]
        for ai, res in enumerate(assigns):
            tag = ''.join(res[k][0] for k in sorted(res))
            scn = wfscn.ProgScenario('%s/%s' % (name, tag), prog,
                                     results=res,
                                     params={'task_name': target})
            jobs.append((scn, None, 60 if quick else 900, 1, ai + 0.75))
    # every pair of language features on one task of a small skeleton
    for name, (prog, assigns) in wfgen.feature_pairs().items():
        for ai, res in enumerate(assigns):
            tag = ''.join(''.join(res[k]) for k in sorted(res))
            kw = {}
            if 'subwf' in name or 'items' in name:
                kw['compare_ctx'] = False
            scn = wfscn.ProgScenario('%s/%s' % (name, tag), prog,
                                     results=res, **kw)
            jobs.append((scn, 1 if quick else 2, 60 if quick else 900, 1,
                         ai + 0.8))
    # every program first with its first assignment, then the second, ...
    jobs.sort(key=lambda j: j[4])
    return [j[:4] for j in jobs]


def main(tier):
    rep = common.Report(PROP, tier)
    jobs = scenarios(tier)
    deadline = time.time() + (400 if tier == 'quick' else 1500)
    res = common.parallel_map(common.explore_job, jobs, deadline=deadline)
    rep.add_explore_results(jobs, res)
    rep.assumptions = [
        'transactions are atomic steps (SQLite; Mistral serialises them with '
        'a process lock): overlap inside transactions under READ COMMITTED is '
        'not explored',
        'one engine, one executor, one scheduler instance (legacy; programs with joins also over the DefaultScheduler without its store poll); integrity '
        'check and heartbeats off (repair mechanisms would mask lost '
        'wake-ups)',
        'the /overlap scenarios additionally let a transaction that has '
        'only read so far be overtaken by complete transactions of other '
        'activities before its first write or lock (READ COMMITTED '
        'overlap); writes of one transaction stay atomic',
        'visited set stores 128-bit hashes of canonical states (collision '
        'probability negligible)',
    ]
    return rep.finish(
        rule='curated direct-workflow programs (incl. bounded cycles) + every direct DAG shape over <= 3 tasks + every requires-graph over <= 3 tasks x target (reverse workflows) + every pair of 14 language features on one task of a 4-task skeleton x action-result assignments; '
             'DFS over interleavings of message deliveries, post-commit '
             'operations and scheduler steps on the real engine; a state is '
             'the canonical DB image + pending messages + suspended '
             'activities')
