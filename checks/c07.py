"""C07 - with-items runs each item once, within the concurrency limit,
results in order.

Engine explorer over with-items tasks with 0..3 items (4 thorough) x
concurrency (absent, 1, 2, n+1, given as an expression) x every per-item
outcome x all completion orders and interleavings with the keyed
_scheduled_on_action_complete jobs x {action items, sub-workflow items}
x retry x rerun of the failed task with reset on / off.  Step oracles: never
more than `concurrency` items running; every index has exactly one execution
per attempt; the task is not final while an item is unfinished.  Terminal:
state rule (ERROR if an item failed, SUCCESS otherwise, empty list succeeds
at once), result list in item order whatever the completion order, a
successor sees that list; a partial rerun re-executes only failed items."""
import itertools
import json
import time

from checks import common
from mc import env, wfgen, wfscn, cmdscn, refmodel

PROP = 'C07'
DONE = ('SUCCESS', 'ERROR', 'CANCELLED')


class ItemsScenario(cmdscn.CmdScenario):
    def __init__(self, name, prog, items=(), concurrency=None, **kw):
        super(ItemsScenario, self).__init__(name, prog, **kw)
        self.items = list(items)
        self.concurrency = concurrency

    rerun_states = ('ERROR', 'CANCELLED')

    def spec(self):
        return ('checks.c07', 'ItemsScenario', self.kwargs())

    def kwargs(self):
        d = super(ItemsScenario, self).kwargs()
        d.update(items=self.items, concurrency=self.concurrency)
        return d

    def _task(self, snap):
        ts = [t for t in snap['task_executions_v2'] if t['name'] == 'a'
              and not any(w['id'] == t['workflow_execution_id'] and
                          w['task_execution_id']
                          for w in snap['workflow_executions_v2'])]
        return ts[0] if ts else None

    def _children(self, snap, tid):
        out = []
        for a in snap['action_executions_v2']:
            if a['task_execution_id'] == tid:
                rc = wfscn.jl(a['runtime_context']) or {}
                out.append((rc.get('index', 0), a['state'], a['accepted'],
                            a['id'], wfscn.jl(a['output'])))
        for w in snap['workflow_executions_v2']:
            if w['task_execution_id'] == tid:
                rc = wfscn.jl(w['runtime_context']) or {}
                out.append((rc.get('index', 0), w['state'], w['accepted'],
                            w['id'], wfscn.jl(w['output'])))
        return out

    def check_step(self, pre, post, choice, ctx):
        v = []
        for where, cls, is_mistral, text in ctx.new_exceptions:
            if not is_mistral and 'already completed' not in text:
                v.append('engine entry point failed with undeclared error '
                         '%s at %s: %s' % (cls, where, text))
        t = self._task(post)
        if t is None:
            return v
        ch = self._children(post, t['id'])
        running = [c for c in ch if c[1] in ('RUNNING', 'IDLE', 'PAUSED')]
        if self.concurrency and len(running) > self.concurrency:
            v.append('%d items running at once with concurrency %d'
                     % (len(running), self.concurrency))
        n = len(self.items)
        cmds = [c[0] for c in env.W.extra.get('cmds', [])]
        reruns = sum(1 for c in cmds if c.startswith('rerun'))
        retry = (self.prog['tasks']['a'].get('retry') or {}).get('count', 0)
        per = {}
        for c in ch:
            per.setdefault(c[0], []).append(c)
        for idx, lst in per.items():
            if idx >= n:
                v.append('an execution was created for item index %d of a '
                         '%d-item list' % (idx, n))
            live = [c for c in lst if c[1] not in DONE]
            if len(live) > 1:
                v.append('item %d has %d unfinished executions at once'
                         % (idx, len(live)))
            if len(lst) > 1 + retry + reruns * (1 + retry):
                v.append('item %d executed %d times (retry=%d, reruns=%d)'
                         % (idx, len(lst), retry, reruns))
            acc = [c for c in lst if c[2]]
            if len(acc) > 1:
                v.append('item %d has %d accepted results' % (idx, len(acc)))
        if t['state'] in DONE and t['state'] != 'CANCELLED':
            acc = [c for c in ch if c[2] and c[1] in DONE]
            unfinished = [c for c in ch if c[1] not in DONE]
            if unfinished:
                v.append('with-items task is %s while item %d is still %s'
                         % (t['state'], unfinished[0][0], unfinished[0][1]))
            if len(set(c[0] for c in acc)) < n and not any(
                    c[1] == 'CANCELLED' for c in acc) and \
                    'Failed to' not in (t['state_info'] or '') and \
                    'stopped' not in (t['state_info'] or ''):
                v.append('with-items task is %s with only %d of %d items '
                         'completed' % (t['state'],
                                        len(set(c[0] for c in acc)), n))
        # partial rerun: items that succeeded are not executed again
        pre_t = self._task(pre)
        if pre_t is not None and 'rerun_noreset' in cmds:
            pre_ch = {c[3]: c for c in self._children(pre, pre_t['id'])}
            ok_before = set(c[0] for c in pre_ch.values()
                            if c[1] == 'SUCCESS' and c[2])
            for c in ch:
                if c[3] not in pre_ch and c[0] in ok_before:
                    v.append('partial rerun (reset=False) re-executed item '
                             '%d which had already succeeded' % c[0])
        return v

    def check_terminal(self, snap, ctx):
        if self.menu or self.prog.get('subs'):
            # reruns keep the history of the first attempt and sub-workflow
            # items report workflow outputs: judged by the C07 oracles below
            # (the language-level outcome of these shapes is C12 / C09)
            key, v = wfscn.WfScenario.check_terminal(self, snap, ctx)
        else:
            key, v = super(ItemsScenario, self).check_terminal(snap, ctx)
        t = self._task(snap)
        if t is not None and t['state'] in ('SUCCESS', 'ERROR'):
            ch = sorted((c for c in self._children(snap, t['id']) if c[2]),
                        key=lambda c: c[0])
            idxs = [c[0] for c in ch]
            if idxs != sorted(set(idxs)) or \
                    (t['state'] == 'SUCCESS' and
                     idxs != list(range(len(self.items)))):
                v.append('accepted item results are %s for %d items'
                         % (idxs, len(self.items)))
            want = 'ERROR' if any(c[1] == 'ERROR' for c in ch) else 'SUCCESS'
            if t['state'] != want and 'Failed' not in (t['state_info']
                                                        or ''):
                v.append('with-items task is %s but its accepted items are '
                         '%s' % (t['state'], [c[1] for c in ch]))
        return key, v

    def model_for_history(self):
        return None


def make_prog(n, conc, sub=False, retry=None, jinja=False):
    T, direct = wfgen.T, wfgen.direct
    a = {'with-items': 'i in <% $.xs %>', 'on-complete': ['b'],
         'publish': {'r': ['result']},
         'publish-on-error': {'r': ['result']}}
    if conc is not None:
        a['concurrency'] = conc
    if retry:
        a['retry'] = retry
    kw = {}
    if sub:
        a['workflow'] = 'sub'
        a['wf-input'] = {'k': '<% $.i %>'}
        kw['subs'] = {'sub': direct(
            {'s': T(action='act', key=None)}, input={'k': None})}
        # the sub-workflow's action key is its input
        kw['subs']['sub']['tasks']['s'] = {'action': 'act',
                                           'key': '<% $.k %>'}
    inp = {'xs': ['i%d' % k for k in range(n)]}
    if isinstance(conc, (list, tuple)):
        inp['c'] = 2
    prog = direct({'a': a, 'b': T(publish={'seen': ['var', 'r']})},
                  input=inp, **kw)
    return prog


def scenarios(tier):
    quick = tier == 'quick'
    jobs = []
    max_n = 3 if quick else 4
    for n in range(0, max_n + 1):
        concs = [None, 1, 2, n + 1, ['var', 'c']]
        if quick and n == 3:
            concs = [None, 2]
        for conc in concs:
            outs = [''.join(c) for c in itertools.product('SE', repeat=n)]
            if quick and n == 3:
                outs = ['SSS', 'SES', 'EES']
            for o in outs:
                res = {'i%d' % k: [o[k]] for k in range(n)}
                res['b'] = ['S']
                cn = conc if not isinstance(conc, list) else 'expr'
                prog = make_prog(n, conc)
                scn = ItemsScenario(
                    'n%d/c%s/%s' % (n, cn, o or '-'), prog,
                    items=['i%d' % k for k in range(n)],
                    concurrency=(2 if isinstance(conc, list) else conc),
                    results=res)
                bound = None if n <= 2 else (1 if quick else 3)
                jobs.append((scn, bound, 40 if quick else 900, 1))
                if n == 2 and (conc in (None, 1, 2) or not quick):
                    # item completions overlapping inside their transactions
                    # (the named lock of the with-items task matters here)
                    jobs.append((common.variant(scn, '/overlap', rp=True),
                                 1 if quick else 2, 40 if quick else 900, 1))
                if n == 2 and (conc in (None, 1) or not quick):
                    # keyed completion jobs over the real DefaultScheduler
                    jobs.append((common.variant(
                        scn, '/dm', scheduler='default_mem'),
                        1 if quick else 3, 40 if quick else 900, 1))
    # sub-workflow items
    for n, o in ((2, 'SS'), (2, 'SE'), (2, 'ES')):
        res = {'i%d' % k: [o[k]] for k in range(n)}
        res['b'] = ['S']
        for conc in (None, 1):
            scn = ItemsScenario('sub-n%d/c%s/%s' % (n, conc, o),
                                make_prog(n, conc, sub=True),
                                items=['i%d' % k for k in range(n)],
                                concurrency=conc, results=res,
                                compare_ctx=False)
            jobs.append((scn, 1 if quick else 3, 40 if quick else 900, 1))
    # a failed item (sub-workflow) repaired from the inside: the failed
    # task of the child is rerun; the slot accounting of the with-items task
    # must still let it complete
    for n, conc, o in ((2, 1, 'SE'), (2, 2, 'ES'), (3, 2, 'SES')):
        res = {'i%d' % k: ([o[k]] if o[k] == 'S' else ['E', 'S'])
               for k in range(n)}
        res['b'] = ['S']
        scn = ItemsScenario('sub-repair-n%d/c%s/%s' % (n, conc, o),
                            make_prog(n, conc, sub=True),
                            items=['i%d' % k for k in range(n)],
                            concurrency=conc, results=res, menu=['rerun'],
                            max_cmds=1, only_tasks=['s'],
                            compare_ctx=False)
        jobs.append((scn, 0 if quick else 1, 40 if quick else 900, 1))
    # retry
    for o in (('E', 'S'), ('S', 'S')):
        res = {'i0': [o[0], 'S'], 'i1': ['S', 'S'], 'b': ['S']}
        for conc in (None, 1):
            scn = ItemsScenario('retry-n2/c%s/%s' % (conc, ''.join(o)),
                                make_prog(2, conc, retry={'count': 1,
                                                          'delay': 0}),
                                items=['i0', 'i1'], concurrency=conc,
                                results=res)
            jobs.append((scn, 1 if quick else 3, 40 if quick else 900, 1))
    # rerun of the failed with-items task, reset on / off
    for n, o in ((2, 'SE'), (2, 'ES'), (2, 'EE'), (3, 'SES'), (3, 'SSE'),
                 (3, 'EES')):
        for menu in ('rerun', 'rerun_noreset'):
            for conc in (None, 1, 2):
                # (the task is started a second time with more items to
                # run than the concurrency limit lets through at once)
                if quick and conc == 2 and n == 3 and o != 'EES':
                    continue
                if conc == 1 and o in ('SES', 'SSE'):
                    continue
                res = {'i%d' % k: [o[k], 'S'] for k in range(n)}
                res['b'] = ['S']
                scn = ItemsScenario(
                    '%s-n%d/c%s/%s' % (menu, n, conc, o), make_prog(n, conc),
                    items=['i%d' % k for k in range(n)], concurrency=conc,
                    results=res, menu=[menu], max_cmds=1, only_tasks=['a'],
                    compare_ctx=False)
                jobs.append((scn, 0 if quick else 2, 40 if quick else 900,
                             1))
    # cancelled items (task CANCELLED) and their engine-level rerun
    for n, o in ((2, 'SC'), (3, 'SEC'), (3, 'CSE')):
        res = {'i%d' % k: [o[k], 'S'] for k in range(n)}
        res['b'] = ['S']
        scn = ItemsScenario('cancel-n%d/%s' % (n, o), make_prog(n, None),
                            items=['i%d' % k for k in range(n)],
                            results=res)
        jobs.append((scn, 1 if quick else 3, 40 if quick else 900, 1))
        for menu in ('rerun', 'rerun_noreset'):
            scn = ItemsScenario(
                '%s-cancelled-n%d/%s' % (menu, n, o), make_prog(n, None),
                items=['i%d' % k for k in range(n)], results=res,
                menu=[menu], max_cmds=1, only_tasks=['a'],
                compare_ctx=False)
            scn.rerun_states = ('ERROR', 'CANCELLED')
            jobs.append((scn, 1 if quick else 2, 40 if quick else 900, 1))
    return jobs


def main(tier):
    rep = common.Report(PROP, tier)
    jobs = common.rotate(scenarios(tier))
    deadline = time.time() + (170 if tier == 'quick' else 1500)
    res = common.parallel_map(common.explore_job, jobs, deadline=deadline)
    rep.add_explore_results(jobs, res)
    rep.assumptions = [
        'the named lock that serialises on_action_complete of one with-items '
        'task only matters for overlapping transactions (not explored); the '
        'keyed _scheduled_on_action_complete jobs are explored',
        'item outcomes SUCCESS / ERROR (CANCELLED items through the API are '
        'covered by C03/C11 menus only)',
    ]
    return rep.finish(
        rule='item counts x concurrency x per-item outcomes x completion '
             'orders / interleavings within the bound x {actions, '
             'sub-workflows} x retry x rerun(reset on/off); step and '
             'terminal oracles as in the module docstring')
