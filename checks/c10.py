"""C10 - pause creates no new tasks; resume continues to the same result.

Engine explorer over programs (parallel branches, waiting join, retry,
with-items, sub-workflow, pause-before, the `pause` command) x results x all
interleavings (bounded) x pause issued at every point and resume at every
later point.  Oracles: no task is created in an execution that is PAUSED
before and after the step; right after an acknowledged pause the execution
and its unfinished sub-workflows are PAUSED; after resume the terminal
outcome is one the reference model allows for the same program WITHOUT pause
(differential against the language semantics)."""
import json
import time

from checks import common
from mc import env, wfgen, wfscn, cmdscn

PROP = 'C10'


class PauseScenario(cmdscn.CmdScenario):
    def spec(self):
        return ('checks.c10', 'PauseScenario', self.kwargs())

    def check_step(self, pre, post, choice, ctx):
        v = []
        for where, cls, is_mistral, text in ctx.new_exceptions:
            if not is_mistral:
                v.append('engine entry point failed with undeclared error '
                         '%s at %s: %s' % (cls, where, text))
        pre_w = {w['id']: w for w in pre['workflow_executions_v2']}
        post_w = {w['id']: w for w in post['workflow_executions_v2']}
        pre_t = set(t['id'] for t in pre['task_executions_v2'])
        for t in post['task_executions_v2']:
            if t['id'] in pre_t:
                continue
            wid = t['workflow_execution_id']
            a, b = pre_w.get(wid), post_w.get(wid)
            if a and b and a['state'] == 'PAUSED' and b['state'] == 'PAUSED':
                v.append('task %s created in execution %s while it is PAUSED'
                         % (t['name'], b['name']))
        tag = getattr(choice, 'tag', None)
        if tag in ('pause', 'pause_sub') and not ctx.new_exceptions:
            # acknowledged pause: the execution and its unfinished
            # descendants are PAUSED
            tgt = None
            for w in post['workflow_executions_v2']:
                p = pre_w.get(w['id'])
                if p and p['state'] == 'RUNNING' and w['state'] == 'PAUSED':
                    tgt = tgt or w
            roots = [w for w in post['workflow_executions_v2']
                     if not w['task_execution_id']]
            if tag == 'pause' and roots and roots[0]['state'] != 'PAUSED' \
                    and pre_w[roots[0]['id']]['state'] == 'RUNNING':
                v.append('pause acknowledged but execution is %s'
                         % roots[0]['state'])
            if tag == 'pause' and roots:
                task_wf = {t['id']: t['workflow_execution_id']
                           for t in post['task_executions_v2']}
                for w in post['workflow_executions_v2']:
                    if w['task_execution_id'] and \
                            w['state'] in ('RUNNING', 'IDLE'):
                        v.append('pause acknowledged but sub-workflow %s is '
                                 'still %s' % (w['name'], w['state']))
        return v

    def check_terminal(self, snap, ctx):
        cmds = [c[0] for c in env.W.extra.get('cmds', [])]
        roots = [w for w in snap['workflow_executions_v2']
                 if not w['task_execution_id']]
        paused_end = any(w['state'] == 'PAUSED'
                         for w in snap['workflow_executions_v2'])
        if paused_end:
            # paused and never resumed (or the program pauses itself):
            # nothing to compare, but nothing may be left half-started
            key = json.dumps(wfscn.outcome_of(snap, with_ctx=False),
                             sort_keys=True, default=str)
            return key, []
        return super(PauseScenario, self).check_terminal(snap, ctx)


from checks import c08 as _c08      # noqa: E402


class PausePolicyScenario(_c08.PolicyScenario):
    """Pause / resume around a task whose policy (timeout) has already
    acted: timers may fire while results are in flight (PolicyScenario), the
    pause oracles are PauseScenario's."""

    def spec(self):
        return ('checks.c10', 'PausePolicyScenario', self.kwargs())

    def check_step(self, pre, post, choice, ctx):
        v = _c08.PolicyScenario.check_step(self, pre, post, choice, ctx)
        v.extend(PauseScenario.check_step(self, pre, post, choice, ctx))
        return v

    def check_terminal(self, snap, ctx):
        if any(w['state'] == 'PAUSED'
               for w in snap['workflow_executions_v2']):
            return json.dumps(wfscn.outcome_of(snap, with_ctx=False),
                              sort_keys=True, default=str), []
        return _c08.PolicyScenario.check_terminal(self, snap, ctx)


def programs():
    T, direct = wfgen.T, wfgen.direct
    C = wfgen.curated()
    P = {}
    P['seq3'] = C['seq3']
    P['fork2'] = C['fork2']
    P['diamond'] = C['diamond']
    P['join_two_starts'] = C['join_two_starts']
    P['err_route'] = C['err_route']
    P['publish_join'] = C['publish_join']
    P['retry1'] = direct({'a': T(retry={'count': 1, 'delay': 0},
                                 **{'on-success': ['b']}), 'b': T()})
    # engine commands (fail / succeed / noop) in the clauses of a task that
    # may complete while the workflow is paused
    for k in ('cmd_fail', 'cmd_fail_on_error', 'cmd_succeed',
              'cmd_task_then_fail', 'cmd_fail_then_task', 'err_noop',
              'fork_fail_race'):
        P[k] = C[k]
    # pause while a retry delay / a wait is pending, during with-items, and
    # around a sub-workflow (pause of the parent and of the child)
    P['retry_delay'] = direct({'a': T(retry={'count': 1, 'delay': 1},
                                      **{'on-success': ['b']}), 'b': T()})
    P['wait_before'] = direct({'a': T(**{'on-success': ['b']}),
                               'b': T(**{'wait-before': 1})})
    P['wait_after'] = direct({'a': T(**{'wait-after': 1,
                                        'on-success': ['b']}), 'b': T()})
    P['items2'] = direct(
        {'a': {'with-items': 'i in <% $.xs %>', 'on-success': ['b'],
               'on-error': ['c']}, 'b': T(), 'c': T()},
        input={'xs': ['i0', 'i1']})
    P['items2_conc1'] = direct(
        {'a': {'with-items': 'i in <% $.xs %>', 'concurrency': 1,
               'on-success': ['b']}, 'b': T()},
        input={'xs': ['i0', 'i1']})
    leaf = direct({'s1': T(key='s1', **{'on-success': ['s2']}),
                   's2': T(key='s2')})
    P['subwf'] = direct(
        {'a': T(workflow='sub', **{'on-success': ['b'], 'on-error': ['c']}),
         'b': T(), 'c': T()}, subs={'sub': leaf})
    return P


def scenarios(tier):
    quick = tier == 'quick'
    jobs = []
    for pname, prog in programs().items():
        keys = wfgen.action_keys(prog)
        assigns = [{k: ['S'] for k in keys}]
        assigns.append({k: ['E' if k == keys[0] else 'S'] for k in keys})
        if len(keys) > 1:
            assigns.append({k: ['E' if k == keys[1] else 'S'] for k in keys})
        if pname in ('retry1', 'retry_delay'):
            assigns = [{'a': ['E', 'S'], 'b': ['S']},
                       {'a': ['E', 'E'], 'b': ['S']}]
        if pname.startswith('items2'):
            assigns = [{'i0': ['S'], 'i1': ['S'], 'b': ['S'], 'c': ['S']},
                       {'i0': ['E'], 'i1': ['S'], 'b': ['S'], 'c': ['S']}]
        if pname == 'subwf':
            assigns = [{'s1': ['S'], 's2': ['S'], 'b': ['S'], 'c': ['S']},
                       {'s1': ['S'], 's2': ['E'], 'b': ['S'], 'c': ['S']}]
        kw = {}
        if pname in ('subwf',) or pname.startswith('items2'):
            kw['compare_ctx'] = False
        for res in assigns:
            tag = ''.join(res[k][0] for k in sorted(res))
            scn = PauseScenario(
                '%s/pause_resume/%s' % (pname, tag), prog, results=res,
                menu=['pause', 'resume'], max_cmds=2,
                sequences=[['pause', 'resume']], **kw)
            jobs.append((scn, 1 if quick else 2, 40 if quick else 1200, 1))
            if pname == 'subwf':
                # the child is paused and resumed on its own
                scn = PauseScenario(
                    '%s/pause_resume_child/%s' % (pname, tag), prog,
                    results=res, menu=['pause_sub', 'resume_sub'],
                    max_cmds=2, sequences=[['pause_sub', 'resume_sub']],
                    **kw)
                jobs.append((scn, 1 if quick else 2,
                             40 if quick else 1200, 1))
    # a sub-workflow task gives up (timeout, error handled) while its child
    # is still running; the root is paused afterwards: the child below the
    # finished task is part of the tree that must be PAUSED
    T, direct = wfgen.T, wfgen.direct
    child = direct({'s1': T(key='s1', action='async',
                            **{'on-success': ['s2']}), 's2': T(key='s2')})
    prog = direct({'a': T(workflow='sub', timeout=2,
                          **{'on-success': ['b'], 'on-error': ['c']}),
                   'b': T(), 'c': T(**{'on-success': ['d']}), 'd': T()},
                  subs={'sub': child})
    for tag, r in (('S', ['S']),):
        scn = PausePolicyScenario(
            'subwf_timeout/pause_resume/%s' % tag, prog,
            results={'s1': r, 's2': ['S'], 'b': ['S'], 'c': ['S'],
                     'd': ['S']},
            menu=['pause', 'resume'], max_cmds=2,
            sequences=[['pause', 'resume']], clock_devs=1,
            compare_ctx=False)
        # (one deviation: the timer job overtakes the child's result)
        jobs.append((scn, 1 if quick else 2, 40 if quick else 1200, 1))
    # the database refuses the first commit of every pause / resume command
    # as a deadlock victim: the engine retries the transaction
    for scn, bound, secs, na in list(jobs):
        jobs.append((common.variant(scn, '/dbretry', cmd_db_fault=True),
                     0, secs, na))
    # every policy program of C08 (retry matrix, waits, timeout races,
    # fail-on, task kinds x policies, policy pairs) paused at every point
    # and resumed at every later point: "tasks created before the pause may
    # still start and finish, including their retries, delays and remaining
    # items"; the policy oracles (attempts, delays, timeout monitor) apply
    # during the pause as well
    for name, prog, res, extra in _c08.programs(tier):
        if 'menu' in extra:
            continue        # pause-before programs need their own resume
        scn = PausePolicyScenario(
            'policy/%s/pause_resume' % name, prog, results=res,
            menu=['pause', 'resume'], max_cmds=2,
            sequences=[['pause', 'resume']], **extra)
        jobs.append((scn, 0 if quick else 1, 40 if quick else 1200, 1))
    return jobs


def main(tier):
    rep = common.Report(PROP, tier)
    jobs = common.rotate(scenarios(tier))
    deadline = time.time() + (300 if tier == 'quick' else 1500)
    res = common.parallel_map(common.explore_job, jobs, deadline=deadline)
    rep.add_explore_results(jobs, res)
    rep.assumptions = [
        'pause / resume are delivered at the point where they are issued',
        'transactions are atomic steps',
        'the reference outcome is the language semantics of the same '
        'program without pause (mc/refmodel.py)',
    ]
    return rep.finish(
        rule='programs x results x (pause at every point, resume at every '
             'later point) x interleavings within the deviation bound; '
             'transition oracle: no task creation while PAUSED, pause '
             'acknowledged => PAUSED tree; terminal oracle after resume: '
             'outcome allowed by the reference model of the unpaused '
             'program')
