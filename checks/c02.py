"""C02 - the result of a run does not depend on event order, timing or
engine caches.

For every confluent program (the reference model yields exactly one outcome:
deterministic actions, no conflicting publishers, no raced engine command)
x result assignment, the engine explorer enumerates all interleavings
(exhaustive for <= 3 tasks, bounded otherwise), once with the in-memory
specification caches intact and once with every cache dropped before every
step (specs rebuilt from the stored dicts).  Differential oracle, no
hand-written expectation: all terminal outcomes (workflow state, task
states, published variables, inbound contexts, output) of one scenario are
identical across schedules and across the two cache modes; and they equal
the single outcome of the reference model."""
import json
import time

from checks import common
from mc import wfgen, wfscn

PROP = 'C02'
CORE_JOIN_SHAPES = ('nested_inner_never_triggered', 'nested_inner_triggered',
                    'jall_chain_inbound', 'jall_impossible_route',
                    'two_joins_same_inbound')
EXTRA_JOIN_SHAPES = set()


def first_diff(ka, kb):
    """Where two outcome keys (JSON) differ first, with both values."""
    try:
        a, b = json.loads(ka), json.loads(kb)
    except ValueError:
        return 'outcomes differ'

    def walk(x, y, path):
        if type(x) is not type(y):
            return path, x, y
        if isinstance(x, dict):
            for k in sorted(set(x) | set(y)):
                r = walk(x.get(k), y.get(k), '%s/%s' % (path, k))
                if r:
                    return r
            return None
        if isinstance(x, list):
            if len(x) != len(y):
                return path + '/#', len(x), len(y)
            for i, (u, w) in enumerate(zip(x, y)):
                r = walk(u, w, '%s/%d' % (path, i))
                if r:
                    return r
            return None
        return None if x == y else (path, x, y)
    r = walk(a, b, '')
    if not r:
        return 'outcomes differ'
    return 'first difference at %s: %s VS %s' % (
        r[0], json.dumps(r[1], default=str)[:300],
        json.dumps(r[2], default=str)[:300])


def programs():
    P = dict(wfgen.curated())
    J = wfgen.join_shapes()
    # every join shape (the reference model excludes the ones whose
    # outcome legitimately depends on the order: join one / N)
    for k in J:
        if k not in P:
            P[k] = J[k]
            if k not in CORE_JOIN_SHAPES:
                EXTRA_JOIN_SHAPES.add(k)
    # programs in which one task specification is used several times in a
    # run (retry attempts, items, loop iterations, two calls of one child):
    # a specification object changed by its use shows as a difference
    # between the cached and the evicted mode
    T, direct = wfgen.T, wfgen.direct
    P['reuse_retry'] = direct(
        {'a': T(retry={'count': 2, 'delay': 0}, publish={'v': ['inc', 'v']},
                **{'publish-on-error': {'e': ['inc', 'e']},
                   'on-success': ['b'], 'on-error': ['b']}),
         'b': T(publish={'w': ['var', 'v']})},
        input={'v': 0, 'e': 0}, output={'v': ['var', 'v'], 'e': ['var', 'e']})
    P['reuse_items'] = direct(
        {'a': {'with-items': 'i in <% $.xs %>', 'publish': {'r': ['result']},
               'on-success': ['b']}, 'b': T()},
        input={'xs': ['i0', 'i1']}, output={'r': ['var', 'r']})
    leaf = direct({'s1': T(key='s1', publish={'k2': ['inc', 'k']})},
                  input={'k': 0}, output={'k2': ['var', 'k2']})
    P['reuse_child'] = direct(
        {'a': T(workflow='sub', publish={'ra': ['result']},
                **{'wf-input': {'k': ['lit', 1]}, 'on-success': ['b']}),
         'b': T(workflow='sub', publish={'rb': ['result']},
                **{'wf-input': {'k': ['lit', 5]}})},
        subs={'sub': leaf}, output={'ra': ['var', 'ra'], 'rb': ['var', 'rb']})
    D = wfgen.dataflow_shapes()
    for k in ('fresh_b_vs_inherited', 'fresh_c_vs_inherited',
              'deep_fresh_c', 'disjoint_vars', 'three_branches'):
        P[k] = D[k]
    return P


def bundled(tier):
    """Workflows shipped in the repository (tests/resources, rally-jobs),
    run with their real std.* actions: differential oracle only."""
    import os
    import yaml
    from mc import env
    quick = tier == 'quick'
    R = os.path.join(env.TREE, 'mistral', 'tests', 'resources')
    J = os.path.join(env.TREE, 'rally-jobs', 'extra')

    def rd(*p):
        with open(os.path.join(*p)) as f:
            return f.read()

    out = []
    try:
        out.append(('wf_v2.wf', rd(R, 'wf_v2.yaml'), 'wf', {}, {}, False, 2))
        out.append(('wf_v2.wf1', rd(R, 'wf_v2.yaml'), 'wf1',
                    {'farewell': 'Bye'}, {'task_name': 'goodbye'}, False, 2))
        out.append(('wb_with_nested_wf', rd(R, 'wb_with_nested_wf.yaml'),
                    'wb_with_nested_wf.wrapping_wf', {}, {}, True, 2))
        docs = {'version': '2.0'}
        for f in ('lowest_level_wf', 'middle_wf', 'top_level_wf'):
            d = yaml.safe_load(rd(R, 'for_wf_namespace', f + '.yaml'))
            docs.update({k: v for k, v in d.items() if k != 'version'})
        out.append(('for_wf_namespace', yaml.safe_dump(docs, sort_keys=False),
                    'top_level_wf', {}, {}, False, 2))
        out.append(('rally.mistral_wb', rd(J, 'mistral_wb.yaml'), 'wb.wf1',
                    {}, {}, True, 2))
        out.append(('rally.nested_wb', rd(J, 'nested_wb.yaml'),
                    'wb.wrapping_wf', {}, {}, True, 0 if quick else 1))
        for cnt, conc in ((2, 0), (3, 2)):
            out.append(('rally.with_items.%d.%d' % (cnt, conc),
                        rd(J, 'scenarios', 'with_items', 'wb.yaml'),
                        'with_items_wb.wf',
                        {'count': cnt, 'concurrency': conc}, {}, True,
                        1 if quick else 2))
    except (IOError, OSError):
        pass
    jobs = []
    for name, text, wf, inp, params, wb, k in out:
        for cc in (False, True):
            scn = wfscn.WfScenario(
                'bundled/%s/%s' % (name, 'evict' if cc else 'cached'), text,
                wf=wf, wf_input=inp, params=params, workbook=wb,
                clear_caches=cc)
            jobs.append((scn, k, 40 if quick else 900, 1,
                         'bundled/%s' % name, 0))
    return jobs


def scenarios(tier):
    quick = tier == 'quick'
    jobs = bundled(tier)
    for name, prog in programs().items():
        n = wfgen.program_size(prog)
        assigns = wfgen.result_assignments(prog)
        if len(assigns) > (3 if quick else 32):
            keys = wfgen.action_keys(prog)
            pick = [{k: ['S'] for k in keys}]
            for k in keys:
                pick.append({x: ['E' if x == k else 'S'] for x in keys})
            if not quick:
                pick.append({k: ['E'] for k in keys})
            assigns = pick[:(3 if quick else 64)]
        if name == 'items_parallel':
            assigns = [{'a0': ['S'], 'a1': ['S'], 'b0': ['S'], 'b1': ['S'],
                        'c': ['S']},
                       {'a0': ['S'], 'a1': ['E'], 'b0': ['S'], 'b1': ['S'],
                        'c': ['S']}]
        if name == 'reuse_retry':
            assigns = [{'a': ['E', 'E', 'S'], 'b': ['S']},
                       {'a': ['E', 'S'], 'b': ['S']},
                       {'a': ['E', 'E', 'E'], 'b': ['S']}]
        if name == 'reuse_items':
            assigns = [{'i0': ['S'], 'i1': ['S'], 'b': ['S']},
                       {'i0': ['E'], 'i1': ['S'], 'b': ['S']}]
        if name == 'reuse_child':
            assigns = [{'s1': ['S', 'S']}, {'s1': ['S', 'E']}]
        extra_shape = name in EXTRA_JOIN_SHAPES
        if quick and extra_shape:
            assigns = assigns[:2]
        for ai, res in enumerate(assigns):
            tag = ''.join(''.join(res[k]) for k in sorted(res))
            for cc in (False, True):
                if quick and cc and (n > 4 or extra_shape):
                    continue
                scn = wfscn.ProgScenario(
                    '%s/%s/%s' % (name, tag, 'evict' if cc else 'cached'),
                    prog, results=res, clear_caches=cc)
                if not scn.model()['confluent']:
                    continue
                if n <= 3:
                    bound = None
                else:
                    bound = 2 if quick else None
                if cc and quick and n > 3:
                    bound = 1
                jobs.append((scn, bound, 40 if quick else 900, 1,
                             '%s/%s' % (name, tag), ai))
                has_join = any(t.get('join') for t in prog['tasks'].values())
                if has_join and not cc and (ai == 0 or not quick):
                    # third mode: the real DefaultScheduler instead of the
                    # legacy one (refresh jobs run through its dispatcher)
                    jobs.append((common.variant(scn, '/dm',
                                                scheduler='default_mem'),
                                 2 if quick else 3, 40 if quick else 900, 1,
                                 '%s/%s' % (name, tag), ai))
    jobs.extend(updated_definitions(tier))
    jobs.sort(key=lambda j: j[5])
    return jobs


def updated_definitions(tier):
    """A definition is created and run, then updated (or kept) and run
    again in the same engine: the second run follows the current text,
    whatever the engine cached during the first."""
    quick = tier == 'quick'
    T, direct = wfgen.T, wfgen.direct
    C = wfgen.curated()
    v1 = direct({'a': T(publish={'v': ['lit', 1]}, **{'on-success': ['b']}),
                 'b': T(), 'c': T()}, output={'v': ['var', 'v']})
    v2 = direct({'a': T(publish={'v': ['lit', 2]},
                        **{'on-success': ['c'], 'on-error': ['b']}),
                 'b': T(), 'c': T(publish={'w': ['var', 'v']})},
                output={'v': ['var', 'v']})
    j1 = C['diamond']
    j2 = direct({'a': T(**{'on-success': ['b']}),
                 'b': T(**{'on-success': ['c']}),
                 'c': T(**{'on-success': ['d']}), 'd': T()})
    pairs = [('v1_v2', v1, v2), ('same_text', v2, v2),
             ('diamond_to_chain', j1, j2), ('chain_to_diamond', j2, j1)]
    jobs = []
    for pname, a, b in pairs:
        keys = wfgen.action_keys(b)
        assigns = [{k: ['S'] for k in keys},
                   {k: ['E' if k == keys[0] else 'S'] for k in keys}]
        wres = {k: ['E' if k == keys[-1] else 'S']
                for k in wfgen.action_keys(a)}
        for res in assigns:
            tag = ''.join(res[k][0] for k in sorted(res))
            for cc in (False, True):
                scn = wfscn.ProgScenario(
                    'updated/%s/%s/%s' % (pname, tag,
                                          'evict' if cc else 'cached'),
                    b, results=res, clear_caches=cc,
                    warmup={'prog': a, 'results': wres})
                if not scn.model()['confluent']:
                    continue
                jobs.append((scn, None if quick else None,
                             40 if quick else 900, 1,
                             'updated/%s/%s' % (pname, tag), -1))
    # the definition is updated while a run of the old text is in flight:
    # that run keeps following the text it was started with (its stored
    # specification), with warm and with cold caches
    for pname, a, b in pairs:
        if pname == 'same_text':
            continue
        keys = wfgen.action_keys(a)
        for res in ({k: ['S'] for k in keys},
                    {k: ['E' if k == keys[0] else 'S'] for k in keys}):
            tag = ''.join(res[k][0] for k in sorted(res))
            for cc in (False, True):
                scn = wfscn.ProgScenario(
                    'inflight_update/%s/%s/%s' % (
                        pname, tag, 'evict' if cc else 'cached'),
                    a, results=res, clear_caches=cc, update_to=b)
                if not scn.model()['confluent']:
                    continue
                jobs.append((scn, 0 if quick else 1, 40 if quick else 900,
                             1, 'inflight_update/%s/%s' % (pname, tag), -1))
    return jobs


def main(tier):
    rep = common.Report(PROP, tier)
    jobs = scenarios(tier)
    deadline = time.time() + (270 if tier == 'quick' else 1500)
    res = common.parallel_map(common.explore_job, [j[:4] for j in jobs],
                              deadline=deadline)
    for klass in ('bundled', 'generated'):
        idx = [i for i, j in enumerate(jobs)
               if j[4].startswith('bundled/') == (klass == 'bundled')]
        # (updated/... scenarios are counted with the generated ones)
        rep.add_explore_results([jobs[i] for i in idx],
                                [res[i] for i in idx], klass)
    # differential: within one scenario and across cache modes
    groups = {}
    for job, r in zip(jobs, res):
        if not r or r.get('error') or r.get('skipped'):
            continue
        scn = job[0]
        outs = r['terminals']
        if len(outs) > 1:
            keys = list(outs)
            rep.violations.append({
                'scenario': scn.name, 'kind': 'differential',
                'message': 'the same program, input and action results end '
                           'differently under two delivery orders; %s; %s '
                           'VS %s' % (first_diff(keys[0], keys[1]),
                                      keys[0][:400], keys[1][:400]),
                'path': outs[keys[0]][1], 'path_b': outs[keys[1]][1],
                '_scn': scn})
        g = groups.setdefault(job[4], [])
        for k, (n, p) in outs.items():
            g.append((k, p, scn))
    n_pairs = 0
    for gname, lst in groups.items():
        modes = {}
        for k, p, scn in lst:
            modes.setdefault((scn.clear_caches, scn.scheduler), (k, p, scn))
        base = modes.get((False, 'legacy'))
        for mk, (kb, pb, sb) in sorted(modes.items()):
            if base is None or mk == (False, 'legacy'):
                continue
            n_pairs += 1
            ka, pa, sa = base
            if ka != kb:
                what = 'the specification caches are dropped between ' \
                       'events' if mk[0] else \
                       'jobs run through the DefaultScheduler instead of ' \
                       'the legacy scheduler'
                rep.violations.append({
                    'scenario': gname, 'kind': 'differential',
                    'message': 'outcome differs when %s; %s; %s VS %s'
                               % (what, first_diff(ka, kb), ka[:400],
                                  kb[:400]),
                    'path': pa, 'path_b': pb, 'spec_b': sb.spec(),
                    '_scn': sa})
    rep.extra = {'mode_pairs_compared': n_pairs,
                 'non_confluent_programs_excluded': 'see rule'}
    rep.assumptions = [
        'confluence is decided by the reference model (exactly one allowed '
        'outcome); programs whose branches publish conflicting values or '
        'race an engine command are outside the statement',
        'delays are virtual; timers only move when nothing else is enabled '
        '(early timer deviations are explored in C08)',
        'transactions are atomic steps',
    ]
    return rep.finish(
        rule='confluent generated programs x result assignments and the repository-bundled workflows (real std actions) x {caches kept, all '
             'spec caches dropped before every step}; DFS over all '
             'interleavings; outcomes compared across schedules, across '
             'cache modes and with the reference model')
