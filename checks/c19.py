"""C19 - outbound HTTP from workflows cannot reach denied networks.

InputMC: the complete product  configuration x scheme x userinfo x host
encoding (x resolver answer for names) x port x path  is pushed through the
three entry points of the real code

    mistral.utils.egress.validate_url(url)
    mistral.actions.std_actions.HTTPAction(url=url).run(ctx)
    mistral.notifiers.publishers.webhook.WebhookPublisher().publish(url=url)

with `socket.getaddrinfo` replaced by a scripted resolver (numeric hosts are
still parsed by the platform's own getaddrinfo, AI_NUMERICHOST) and the HTTP
client replaced by a recorder.  Every case is classified by the independent
reference in mc/c19_model.py; a case is a violation when the reference says
REFUSE and validate_url returns normally / the client is invoked.
"""
from mc import env  # noqa: F401  (tree under test first; import order)
from mc import tree  # noqa: F401

import collections
import datetime
import hashlib
import logging
import os
import socket
import sys
import time
import warnings

warnings.filterwarnings('ignore')
logging.disable(logging.CRITICAL)
for _k in list(os.environ):
    if _k.lower() in ('http_proxy', 'https_proxy', 'all_proxy', 'no_proxy'):
        del os.environ[_k]

from oslo_config import cfg  # noqa: E402
from mistral import config as _mconfig  # noqa: E402,F401
from mistral.db.sqlalchemy import base as _db_base  # noqa: E402,F401
from mistral.db.v2 import api as _db_api  # noqa: E402,F401
from mistral.actions import std_actions  # noqa: E402
from mistral.notifiers.publishers import webhook  # noqa: E402
from mistral.utils import egress  # noqa: E402
from mistral import exceptions as mexc  # noqa: E402
import requests  # noqa: E402

from checks import common  # noqa: E402
from mc import c19_model as M  # noqa: E402

tree.assert_tree(egress)
tree.assert_tree(std_actions)
tree.assert_tree(webhook)

PROP = 'C19'
CONF = cfg.CONF
GROUP = 'action_std_http'
SITES = ('validate_url', 'HTTPAction.run', 'WebhookPublisher.publish')
DOCS_PER_CLASS = 2          # written-out violations per job, site and class

# ------------------------------------------------------------------ seams
_REAL_GAI = socket.getaddrinfo
_SCRIPT = {'answer': 'gaierror', 'lookups': []}


def _entries(addr, port, family, type_):
    p = port if isinstance(port, int) else 0
    if ':' in addr:
        fam, sa = socket.AF_INET6, (addr, p, 0, 0)
    else:
        fam, sa = socket.AF_INET, (addr, p)
    if family not in (0, fam):
        return []
    kinds = ([(socket.SOCK_STREAM, 6), (socket.SOCK_DGRAM, 17),
              (socket.SOCK_RAW, 0)] if not type_ else [(type_, 6)])
    return [(fam, t, pr, '', sa) for t, pr in kinds]


def scripted_getaddrinfo(host, port, family=0, type=0, proto=0, flags=0):
    """Numeric hosts: the platform's own parser (never touches the network).
    Anything else is a name: the answer scripted for the current case."""
    _SCRIPT['lookups'].append(host)
    try:
        return _REAL_GAI(host, port, family, type, proto,
                         flags | socket.AI_NUMERICHOST)
    except socket.gaierror:
        pass
    ans = _SCRIPT['answer']
    if ans is None or ans == 'gaierror':
        raise socket.gaierror(socket.EAI_NONAME, 'Name or service not known')
    out = []
    for a in ans:
        out.extend(_entries(a, port, family, type))
    if not out and ans:
        raise socket.gaierror(socket.EAI_NONAME, 'Name or service not known')
    return out


def _scripted_v4(host):
    res = scripted_getaddrinfo(host, None, socket.AF_INET)
    if not res:
        raise socket.gaierror(socket.EAI_NONAME, 'Name or service not known')
    return [r[4][0] for r in res]


class FakeResponse(object):
    status_code = 200
    content = b''
    text = ''
    encoding = None
    reason = 'OK'
    history = []

    def __init__(self, url):
        self.url = url
        self.headers = {}
        self.cookies = {}
        self.elapsed = datetime.timedelta(0)

    def json(self):
        raise ValueError('no json')

    def close(self):
        pass


class ClientRecorder(object):
    """Stands in for the `requests` module inside the code under test."""

    def __init__(self, real):
        self._real = real
        self.calls = []

    def request(self, method, url, **kw):
        self.calls.append(url)
        return FakeResponse(url)

    def post(self, url, *a, **kw):
        return self.request('POST', url)

    def get(self, url, *a, **kw):
        return self.request('GET', url)

    def put(self, url, *a, **kw):
        return self.request('PUT', url)

    def __getattr__(self, name):
        return getattr(self._real, name)


_RECORDER = ClientRecorder(requests)
_INSTALLED = []


def install_seams():
    if _INSTALLED:
        return
    _INSTALLED.append(1)
    socket.getaddrinfo = scripted_getaddrinfo
    socket.gethostbyname = lambda h: _scripted_v4(h)[0]
    socket.gethostbyname_ex = lambda h: (h, [], _scripted_v4(h))
    std_actions.requests = _RECORDER
    webhook.requests = _RECORDER
    # anything else that reaches for the module-level helpers
    for name in ('request', 'get', 'post', 'put'):
        setattr(requests, name, getattr(_RECORDER, name))
        setattr(requests.api, name, getattr(_RECORDER, name))


def set_config(c):
    CONF.set_override('denied_cidrs', list(c.denied), group=GROUP)
    CONF.set_override('allowed_hosts', list(c.allowed), group=GROUP)


# ------------------------------------------------------------ entry points
def _run(fn):
    """-> (outcome, client urls).  outcome: 'passed' | 'refused' |
    'error:<Type>'."""
    del _RECORDER.calls[:]
    del _SCRIPT['lookups'][:]
    try:
        fn()
        out = 'passed'
    except mexc.UrlNotAllowedException:
        out = 'refused'
    except Exception as e:  # noqa
        out = 'error:%s' % type(e).__name__
    return out, list(_RECORDER.calls)


def run_site(site, url):
    if site == 'validate_url':
        return _run(lambda: egress.validate_url(url))
    if site == 'HTTPAction.run':
        return _run(lambda: std_actions.HTTPAction(url=url).run(None))
    return _run(lambda: webhook.WebhookPublisher().publish(
        None, 'ex-id', {'k': 'v'}, 'WORKFLOW_SUCCEEDED', 'ts', url=url,
        headers={}))


def judge(site, url, exp, outcome, calls, direct_outcome):
    """-> list of (kind, text) disagreements between code and reference."""
    bad = []
    if site == 'validate_url':
        if exp['verdict'] == M.REFUSE and outcome == 'passed':
            bad.append(('not-refused', 'validate_url returned normally'))
        return bad
    if calls and exp['verdict'] == M.REFUSE:
        bad.append(('not-refused', 'HTTP client invoked with %r' % calls))
    elif calls and direct_outcome != 'passed':
        bad.append(('request-despite-refusal',
                    'validate_url(%r) -> %s, but the HTTP client was invoked '
                    'with %r' % (url, direct_outcome, calls)))
    if calls and any(c != url for c in calls):
        bad.append(('other-url', 'validated %r but requested %r'
                    % (url, calls)))
    return bad


# --------------------------------------------------- what would requests do
class _FakeSocket(object):
    connects = []

    def __init__(self, family=-1, type=-1, proto=-1, fileno=None):
        self.family = family

    def setsockopt(self, *a):
        pass

    def settimeout(self, *a):
        pass

    def bind(self, *a):
        pass

    def connect(self, sa):
        _FakeSocket.connects.append(sa)
        raise ConnectionRefusedError(111, 'recorded, not connected')

    def close(self):
        pass


def client_target(url, answer):
    """Runs the REAL requests/urllib3 stack on the URL with the same scripted
    resolver and a socket that records `connect` targets.  -> dict."""
    import urllib3.util.connection as uconn
    install_seams()
    _SCRIPT['answer'] = answer
    del _SCRIPT['lookups'][:]
    _FakeSocket.connects = []
    real_sock, real_v6 = socket.socket, uconn.HAS_IPV6
    socket.socket = _FakeSocket
    uconn.HAS_IPV6 = True
    status = 'no-connect'
    try:
        s = requests.sessions.Session()
        s.trust_env = False
        try:
            s.request('GET', url, timeout=1, allow_redirects=False)
        except (requests.exceptions.InvalidURL,
                requests.exceptions.MissingSchema,
                requests.exceptions.InvalidSchema) as e:
            status = 'client-rejects:%s' % type(e).__name__
        except requests.exceptions.RequestException as e:
            status = 'io:%s' % type(e).__name__
        except Exception as e:  # noqa
            status = 'client-error:%s' % type(e).__name__
    finally:
        socket.socket, uconn.HAS_IPV6 = real_sock, real_v6
    conns = []
    for sa in _FakeSocket.connects:
        if sa[0] not in conns:
            conns.append(sa[0])
    return {'status': status, 'lookups': list(_SCRIPT['lookups']),
            'connects': conns,
            'ports': sorted(set(sa[1] for sa in _FakeSocket.connects))}


def _norm_addrs(texts):
    return sorted(set('%d:%x' % M.addr_value(t) for t in texts))


# ------------------------------------------------------------------ jobs
def akey(answer):
    if answer is None:
        return '-'
    if answer == 'gaierror':
        return 'gaierror'
    return '[' + ','.join(answer) + ']'


def case_id(sites, kinds, cls, c, url, answer):
    """sites = the entry points that disagree with the reference, in the
    fixed order of SITES, joined by '+'."""
    return 'sites=%s|%s|%s|cfg=%s|url=%s|answer=%s' % (
        sites, kinds, cls, c.name, url, akey(answer))


def describe(url, c, answer, exp, found, target=None):
    msg = ('URL %r under config %s (denied_cidrs=%s allowed_hosts=%s), '
           'resolver answer %s: the reference requires refusal (%s%s); '
           'observed: %s'
           % (url, c.name, c.denied, c.allowed, akey(answer),
              '+'.join(exp['reasons']) or 'n/a',
              ': ' + exp['detail'] if exp['detail'] else '',
              '; '.join('%s -> %s: %s' % (site, outcome, why)
                        for site, kind, why, outcome in found)))
    if target is not None:
        msg += ('; the real requests/urllib3 stack on this URL: %s, looks up '
                '%s, connects to %s' % (target['status'], target['lookups'],
                                        target['connects']))
    return msg


def class_of(exp, found):
    sites = '+'.join(s for s in SITES if any(f[0] == s for f in found))
    kinds = '+'.join(sorted(set(f[1] for f in found)))
    return sites, kinds, exp['cls'] or 'not-demanded'


def eval_case(c, url, answer, st):
    """One case through the three entry points."""
    exp = M.expect(url, c, answer)
    _SCRIPT['answer'] = answer
    direct = None
    found = []
    for site in SITES:
        outcome, calls = run_site(site, url)
        if site == 'validate_url':
            direct = outcome
            st['impl_' + outcome.split(':')[0]] += 1
            if outcome.startswith('error'):
                st['impl_' + outcome] += 1
        else:
            st['client_invoked' if calls else 'client_not_invoked'] += 1
            if bool(calls) != (direct == 'passed'):
                st['site_differs_from_validate_url'] += 1
        for kind, why in judge(site, url, exp, outcome, calls, direct):
            found.append((site, kind, why, outcome))
    st['expect_' + exp['verdict']] += 1
    if exp['verdict'] == M.REFUSE:
        st['refuse_because_' + exp['cls']] += 1
        if direct != 'passed':
            st['refused_as_required'] += 1
    if exp['verdict'] == M.ALLOW:
        st['over_refused' if direct != 'passed' else 'allowed_as_expected'] \
            += 1
    if exp['rfc6874_denied'] and direct == 'passed':
        st['info_rfc6874_zone_literal_passed'] += 1
    return exp, direct, found


def urls_of_job(job, tier):
    c_idx, scheme, userinfo = job
    if scheme is None:
        for u in M.SPECIALS:
            yield 'special', u, 'gaierror'
        return
    hosts = HOSTS[tier]
    for form, host, answer in hosts:
        for port in M.PORTS[tier]:
            for path in M.PATHS[tier]:
                yield form, scheme + userinfo + host + port + path, answer


HOSTS = {}
CONFIGS = {}


def explore_job(jobspec, deadline):
    tier, job = jobspec
    c = CONFIGS[tier][job[0]]
    install_seams()
    set_config(c)
    st = collections.Counter()
    keys, nontrivial = set(), set()
    digests = []
    viols, per_class = [], collections.Counter()
    over, sample = [], None
    # which case of the job is written out as a sample (spread over forms)
    sample_at = (job[0] * 211 + 17 * len(job[2] or '') + 5) % 1500
    n_target = 0
    for form, url, answer in urls_of_job(job, tier):
        exp, direct, found = eval_case(c, url, answer, st)
        k = url + '\0' + akey(answer)
        keys.add(k)
        if exp['verdict'] != M.DONTCARE:
            nontrivial.add(k)
        if job[0] == 0:
            digests.append(hashlib.blake2b(k.encode('utf-8', 'replace'),
                                           digest_size=8).digest())
        st['cases'] += 1
        st['calls'] += len(SITES)
        if sample is None and st['cases'] > sample_at and form != 'special':
            sample = {'config': c.doc(), 'url': url, 'form': form,
                      'resolver_answer': akey(answer),
                      'reference': {k2: exp[k2] for k2 in
                                    ('verdict', 'reasons', 'detail', 'addrs')},
                      'validate_url': direct}
        if (exp['verdict'] == M.ALLOW and direct != 'passed'
                and len(over) < 2):
            over.append({'config': c.name, 'url': url,
                         'answer': akey(answer), 'observed': direct})
        if found:
            ck = class_of(exp, found)
            st['viol|%s|%s|%s' % ck] += 1
            per_class[ck] += 1
            if per_class[ck] > DOCS_PER_CLASS:
                continue
            target = None
            if n_target < 40 and (exp['scheme'] or '').lower() in ('http',
                                                                   'https'):
                n_target += 1
                target = client_target(url, answer)
            viols.append({
                'class': ck, 'rank': per_class[ck],
                'case_id': case_id(ck[0], ck[1], ck[2], c, url, answer),
                'message': describe(url, c, answer, exp, found, target),
                'doc': {'url': url, 'config': c.doc(), 'answer': answer,
                        'form': form, 'sites': ck[0]}})
    assert len(keys) == st['cases'], 'duplicate cases inside a job'
    return {'stats': dict(st), 'distinct': len(keys),
            'nontrivial': len(nontrivial), 'digests': b''.join(digests),
            'violations': viols, 'over': over, 'sample': sample}


def grounding_job(jobspec, deadline):
    """Reference vs the real HTTP client: the addresses the reference says a
    host denotes / resolves to must be exactly the addresses requests/urllib3
    would connect to (unless the client rejects the URL outright)."""
    tier, (lo, hi) = jobspec
    install_seams()
    c = CONFIGS[tier][0]
    st = collections.Counter()
    bad, strict = [], []
    for form, host, answer in HOSTS[tier][lo:hi]:
        for scheme in ('http://', 'HTTP://', 'https://'):
            for userinfo in M.USERINFO[tier]:
                for port in M.PORTS[tier]:
                    url = scheme + userinfo + host + port + '/x?u=a@b'
                    exp = M.expect(url, c, answer)
                    t = client_target(url, answer)
                    st['grounding_cases'] += 1
                    if t['status'].startswith('client-'):
                        st['grounding_client_rejects'] += 1
                        continue
                    want = _norm_addrs(exp['addrs'] or [])
                    got = _norm_addrs(t['connects'])
                    if want == got:
                        st['grounding_agree'] += 1
                        if got:
                            st['grounding_agree_with_connect'] += 1
                    elif set(got) <= set(want):
                        # the client reaches less than the reference lists
                        # (e.g. requests re-escapes "%lo" to "%25lo" and then
                        # fails to look it up): the reference is stricter,
                        # which matters only if the code under test passes
                        # such a URL - then it shows up as a violation whose
                        # message carries the client's view
                        st['grounding_reference_stricter'] += 1
                        if len(strict) < 3:
                            strict.append({'url': url, 'answer': akey(answer),
                                           'reference_addresses': exp['addrs'],
                                           'client': t})
                    else:
                        st['grounding_disagree'] += 1
                        if len(bad) < 5:
                            bad.append({'url': url, 'answer': akey(answer),
                                        'reference_addresses': exp['addrs'],
                                        'client': t})
    return {'stats': dict(st), 'bad': bad, 'strict': strict}


def platform_crosscheck(tier):
    """The reference's numeric parser against the platform's getaddrinfo
    (AI_NUMERICHOST) for every host text of the catalogue."""
    bad, n = [], 0
    for form, host, answer in HOSTS[tier]:
        if form == 'name':
            continue
        n += 1
        h = host[1:-1] if host.startswith('[') else host
        # what urlsplit-like lowercasing does not matter for numeric parsing
        try:
            res = _REAL_GAI(h, None, flags=socket.AI_NUMERICHOST)
            plat = _norm_addrs([res[0][4][0]])
        except (socket.gaierror, UnicodeError):
            plat = None
        kind, addrs, _ = M.host_addresses(h.lower(), host.startswith('['),
                                          None)
        ref = (None if addrs is None
               else sorted(set('%d:%x' % a for a in addrs)))
        if plat != ref:
            bad.append({'host': host, 'platform': plat, 'reference': ref})
    return n, bad


# ------------------------------------------------------------------ main
def build(tier):
    if tier not in HOSTS:
        HOSTS[tier] = M.host_cases(tier)
        CONFIGS[tier] = M.configs(tier)


class _Counted(object):
    """distinct-case counter for spaces too large to keep every key in the
    parent: the count is the sum of per-job measured set sizes."""

    def __init__(self, n):
        self.n = n

    def __len__(self):
        return self.n

    def add(self, k):
        self.n += 1


def main(tier):
    rep = common.SimpleReport(PROP, tier, level='exploration')
    build(tier)
    cfgs = CONFIGS[tier]
    jobs = []
    for ci in range(len(cfgs)):
        jobs.append((tier, (ci, None, None)))
        for s in M.SCHEMES[tier]:
            for u in M.USERINFO[tier]:
                jobs.append((tier, (ci, s, u)))
    jobs = common.rotate(jobs)
    deadline = time.time() + (80 if tier == 'quick' else 840)
    res = common.parallel_map(explore_job, jobs, deadline=deadline)

    exhaustive = True
    total = collections.Counter()
    distinct = nontrivial = 0
    digests = set()
    n_digest = 0
    over = []
    allv = []
    sampled_cfg = set()
    def _pos(i):
        ci, sch, usr = jobs[i][1]
        if sch is None:
            return (ci, -1, -1)
        return (ci, M.SCHEMES[tier].index(sch), M.USERINFO[tier].index(usr))

    order = sorted(range(len(jobs)), key=_pos)
    for i in order:
        r = res[i]
        if r is None or r.get('skipped') or r.get('error'):
            exhaustive = False
            total['jobs_not_completed'] += 1
            if r and r.get('error'):
                rep.extra.setdefault('job_errors', []).append(
                    {'job': repr(jobs[i][1]), 'error': r['error'][-1500:]})
            continue
        total.update(r['stats'])
        distinct += r['distinct']
        nontrivial += r['nontrivial']
        d = r['digests']
        n_digest += len(d) // 8
        digests.update(d[j:j + 8] for j in range(0, len(d), 8))
        if (r['sample'] and jobs[i][1][1] in ('http://', 'https://')
                and jobs[i][1][2] in ('', 'a@b@')
                and jobs[i][1][0] not in sampled_cfg):
            sampled_cfg.add(jobs[i][1][0])
            rep.sample(r['sample'], limit=8)
        over.extend(r['over'])
        allv.extend(r['violations'])
    # one written-out violation of every class first (only a handful are
    # replayed), in a seed-independent order
    seen_cls = collections.Counter()
    for v in allv:
        seen_cls[v['class']] += 1
        v['order'] = (seen_cls[v['class']], v['class'])
    for v in sorted(allv, key=lambda v: v['order']):
        rep.violation(v['case_id'], v['message'], v['doc'])
    # distinctness across jobs: measured on the URL-case keys of the first
    # configuration (every configuration sees the same URL-case list)
    cross_job_distinct = (len(digests) == n_digest)
    if not cross_job_distinct:
        exhaustive = False
    rep.evaluations = total['calls']
    rep.distinct = _Counted(nontrivial)

    # reference vs platform parser, reference vs real HTTP client
    n_plat, plat_bad = platform_crosscheck(tier)
    nh = len(HOSTS[tier])
    step = max(1, (nh + 47) // 48)
    gjobs = [(tier, (lo, min(nh, lo + step))) for lo in range(0, nh, step)]
    gres = common.parallel_map(grounding_job, gjobs, deadline=deadline)
    g = collections.Counter()
    gbad, gstrict = [], []
    for r in gres:
        if r is None or r.get('skipped') or r.get('error'):
            g['grounding_jobs_not_completed'] += 1
            continue
        g.update(r['stats'])
        gbad.extend(r['bad'])
        gstrict.extend(r['strict'])
    rep.validated = g['grounding_agree']

    viol_counts = {k[5:]: v for k, v in total.items()
                   if k.startswith('viol|')}
    rep.counters.update({k: v for k, v in total.items()
                         if not k.startswith('viol|')})
    rep.counters.update(g)
    rep.extra.update({
        'tier_bounds': {
            'configurations': [c.doc() for c in cfgs],
            'schemes': M.SCHEMES[tier], 'userinfo': M.USERINFO[tier],
            'ports': M.PORTS[tier], 'paths': M.PATHS[tier],
            'ipv4_addresses': M.V4[tier], 'ipv6_addresses': M.V6[tier],
            'ipv4_forms': [f for f, _ in M.v4_forms('127.0.0.1', tier)],
            'ipv6_forms': [f for f, _ in M.v6_forms('::1', tier)]
            + [f for f, _ in M.zone_forms(tier)],
            'names': M.NAMES[tier], 'resolver_atoms': M.ATOMS[tier],
            'resolver_answers_per_name': len(M.answers(tier)),
            'host_cases': nh, 'special_urls': M.SPECIALS,
            'entry_points': list(SITES)},
        'cases': total['cases'],
        'distinct_cases': distinct,
        'cross_job_distinctness_measured': cross_job_distinct,
        'violating_cases_by_sites_kind_class': viol_counts,
        'violating_cases_total': sum(viol_counts.values()),
        'violating_cases_note': 'violating_cases counts the written-out '
        'violations (at most %d per job and class); violating_cases_total '
        'counts every violating case' % DOCS_PER_CLASS,
        'over_refusals_informational': {'count': total['over_refused'],
                                        'examples': over[:6]},
        'reference_vs_platform_parser': {'hosts': n_plat,
                                         'disagreements': plat_bad[:10]},
        'reference_vs_real_http_client': {
            'cases': g['grounding_cases'], 'agree': g['grounding_agree'],
            'agree_with_connect': g['grounding_agree_with_connect'],
            'client_rejects_url': g['grounding_client_rejects'],
            'reference_stricter_than_client': {
                'count': g['grounding_reference_stricter'],
                'examples': gstrict[:3]},
            'disagree': g['grounding_disagree'], 'examples': gbad[:10]},
    })
    if plat_bad or gbad or g['grounding_jobs_not_completed']:
        exhaustive = False
        print('HARNESS-NOTE property=%s reference model disagrees with the '
              'platform parser / HTTP client on %d + %d inputs (see evidence)'
              % (PROP, len(plat_bad), g['grounding_disagree']),
              file=sys.stderr)
    rep.assumptions = [
        'names resolve to what the scripted resolver answers, and the same '
        'answer is given to the check and to the later connection (DNS '
        'rebinding between check and use is out of scope, as the code '
        'documents)',
        'numeric host texts are parsed by this platform\'s getaddrinfo '
        '(glibc, AI_NUMERICHOST); the modelled machine has interface lo with '
        'index 1 and no interface named 25lo / nosuch0',
        'a text "a.b.c.d." (trailing dot) is not numeric for getaddrinfo; '
        'the resolver answers enumerated for it are NXDOMAIN and the address '
        'itself',
        'the HTTP client is the module attribute `requests` of std_actions '
        'and webhook (replaced by a recorder); redirects followed by the '
        'real client are not modelled',
        'scheme comparison is case-insensitive (RFC 3986); allow-list '
        'comparison is case-insensitive and ignores one trailing dot (the '
        'reference demands refusal only for hosts that are not listed under '
        'that reading)',
        'a scoped IPv6 literal whose zone does not exist on the modelled '
        'machine is unreachable: nothing is demanded for it',
    ]
    return rep.finish(
        rule='complete product configuration x scheme x userinfo x host text '
             '(every catalogue address in every textual form; names x every '
             'resolver answer: gaierror, each atom, each ordered pair) x port '
             'x path, plus a list of degenerate URLs, each through '
             'validate_url, HTTPAction.run and WebhookPublisher.publish; a '
             'case is the triple (configuration, URL text, resolver answer); '
             'distinct = distinct triples (set sizes measured per job, '
             'cross-job distinctness measured on key digests); non-trivial = '
             'the reference classifies it REFUSE or ALLOW (not DONTCARE)',
        exhaustive=exhaustive)


def replay(doc):
    c = M.Config(doc['config']['name'], doc['config']['denied_cidrs'],
                 doc['config']['allowed_hosts'])
    install_seams()
    set_config(c)
    url, answer = doc['url'], doc['answer']
    st = collections.Counter()
    exp, direct, found = eval_case(c, url, answer, st)
    if not found:
        return False, ('%r: reference %s, validate_url %s, no disagreement'
                       % (url, exp['verdict'], direct))
    target = None
    if (exp['scheme'] or '').lower() in ('http', 'https'):
        target = client_target(url, answer)
    sites = class_of(exp, found)[0]
    msg = describe(url, c, answer, exp, found, target)
    if doc.get('sites') and sites != doc['sites']:
        msg = '(sites now %s, recorded %s) ' % (sites, doc['sites']) + msg
    return True, msg
