"""C11 - stop and cancel end the whole execution tree; late results change
nothing.

Engine explorer over programs (sequence, fork/join, nested sub-workflows to
depth 2, with-items of sub-workflows) x results x interleavings (bounded) x
stop(SUCCESS|ERROR|CANCELLED) issued at every point on the root or on a
nested execution.  Transition oracles: the stopped execution holds the
requested state and message; no task is created in a finished execution
(nor anywhere below a cancelled one) afterwards; finished executions keep
state / output / message; each finished sub-workflow reports to its parent
at most once.  Terminal: below a cancelled execution every execution is
final, unfinished ones CANCELLED together with their parent tasks; each
completed sub-workflow reported exactly once."""
import json
import time

from checks import common
from mc import env, wfgen, wfscn, cmdscn, lifecycle

PROP = 'C11'
FINAL = ('SUCCESS', 'ERROR', 'CANCELLED')


def descendants(snap, wid):
    task_wf = {t['id']: t['workflow_execution_id']
               for t in snap['task_executions_v2']}
    out, todo = set(), [wid]
    while todo:
        x = todo.pop()
        for w in snap['workflow_executions_v2']:
            if w['task_execution_id'] and \
                    task_wf.get(w['task_execution_id']) == x \
                    and w['id'] not in out:
                out.add(w['id'])
                todo.append(w['id'])
    return out


class StopScenario(cmdscn.CmdScenario):
    def spec(self):
        return ('checks.c11', 'StopScenario', self.kwargs())

    def setup(self):
        super(StopScenario, self).setup()
        env.W.extra['stopped'] = {}     # wf id -> (state, pre-final?)

    def extra_state(self):
        return [super(StopScenario, self).extra_state(),
                sorted(env.W.extra['stopped'].items()),
                env.W.extra.get('pending_stop')]

    def check_step(self, pre, post, choice, ctx):
        v = []
        tag = getattr(choice, 'tag', None) or ''
        pre_w = {w['id']: w for w in pre['workflow_executions_v2']}
        post_w = {w['id']: w for w in post['workflow_executions_v2']}
        for where, cls, is_mistral, text in ctx.new_exceptions:
            if not is_mistral and 'is already completed' not in text:
                v.append('engine entry point failed with undeclared error '
                         '%s at %s: %s' % (cls, where, text))
        busy = any(not a.done and a.kind == 'msg' and
                   '.stop_workflow' in a.desc for a in env.W.acts)
        pend = env.W.extra.get('pending_stop')
        if tag.startswith('stop') and busy:
            # the command's transaction is explored in several steps
            # (overlap mode): it is judged when it has finished
            tgt = env.W.extra.get('last_stop_target')
            if tgt and tgt in pre_w:
                env.W.extra['pending_stop'] = [tag.split(':')[1], tgt,
                                               pre_w[tgt]['state']]
        elif pend and not busy:
            env.W.extra['pending_stop'] = None
            want, tgt, was = pend
            b = post_w.get(tgt)
            if b is not None and was not in FINAL:
                if b['state'] not in FINAL:
                    v.append('stop(%s) acknowledged but execution %s is %s'
                             % (want, b['name'], b['state']))
                elif b['state'] == want and 'stopped-by-operator' in str(
                        b['state_info']):
                    env.W.extra['stopped'][tgt] = want
                    if want == 'CANCELLED':
                        for d in descendants(post, tgt):
                            if post_w[d]['state'] not in FINAL:
                                v.append('cancel acknowledged but '
                                         'sub-workflow %s below it is %s'
                                         % (post_w[d]['name'],
                                            post_w[d]['state']))
        elif tag.startswith('stop'):
            want = tag.split(':')[1]
            # the command addressed the execution whose state changed, or an
            # already finished one
            tgt = env.W.extra.get('last_stop_target')
            if tgt and tgt in post_w and tgt in pre_w:
                a, b = pre_w[tgt], post_w[tgt]
                if a['state'] not in FINAL:
                    if b['state'] != want:
                        v.append('stop(%s) acknowledged but execution %s is '
                                 '%s' % (want, b['name'], b['state']))
                    elif 'stopped-by-operator' not in str(b['state_info']):
                        v.append('stop(%s): message not recorded, state_info'
                                 '=%s' % (want, b['state_info']))
                    env.W.extra['stopped'][tgt] = want
                    if want == 'CANCELLED':
                        for d in descendants(post, tgt):
                            if post_w[d]['state'] not in FINAL:
                                v.append('cancel acknowledged but '
                                         'sub-workflow %s below it is %s'
                                         % (post_w[d]['name'],
                                            post_w[d]['state']))
        # no task creation in a finished execution / below a cancelled one
        pre_t = set(t['id'] for t in pre['task_executions_v2'])
        cancelled_trees = set()
        for wid, st in env.W.extra['stopped'].items():
            if st == 'CANCELLED':
                # (post: a sub-workflow created in this very step below the
                # cancelled execution counts)
                cancelled_trees |= descendants(post, wid) | {wid}
        for t in post['task_executions_v2']:
            if t['id'] in pre_t:
                continue
            wid = t['workflow_execution_id']
            a = pre_w.get(wid)
            if a is not None and a['state'] in FINAL:
                v.append('task %s created in execution %s after it finished '
                         '(%s)' % (t['name'], a['name'], a['state']))
            elif wid in cancelled_trees:
                v.append('task %s created below a cancelled execution'
                         % t['name'])
        # finished executions are frozen (state / output / message)
        v.extend(m for m in lifecycle.lifecycle_violations(
            pre, post, is_rerun=False, choice=choice)
            if m.startswith('finished workflow') or 'left' in m)
        # a finished sub-workflow reports to its parent at most once
        rep = env.W.extra.setdefault('reports', {})
        for (seq, topic, method, short, sender) in ctx.new_msgs:
            if method == 'on_action_complete' and '"wf_action": "true"' \
                    in short:
                k = json.loads(short).get('action_ex_id')
                rep[k] = rep.get(k, 0) + 1
                if rep[k] > 1:
                    v.append('sub-workflow completion reported to the parent '
                             '%d times' % rep[k])
        return v

    def check_terminal(self, snap, ctx):
        v = []
        ws = {w['id']: w for w in snap['workflow_executions_v2']}
        tasks = {t['id']: t for t in snap['task_executions_v2']}
        cmds = [c[0] for c in env.W.extra.get('cmds', [])]
        only_paused = bool(cmds) and cmds[-1].startswith('pause')
        paused_before = any(c.startswith('pause') for c in cmds)
        for w in ws.values():
            if w['state'] == 'PAUSED' and only_paused:
                # the run in which the operator paused and did nothing else
                continue
            if w['state'] == 'PAUSED' and paused_before and \
                    w['task_execution_id'] and \
                    not any(c == 'stop:CANCELLED' for c in cmds):
                # a sub-workflow the operator paused stays paused when its
                # parent is failed (only a cancel reaches down the tree)
                continue
            if w['state'] not in FINAL:
                v.append('quiescent but execution %s is %s'
                         % (w['name'], w['state']))
        for wid, st in env.W.extra['stopped'].items():
            if ws[wid]['state'] != st:
                v.append('execution %s was stopped with %s but ended %s'
                         % (ws[wid]['name'], st, ws[wid]['state']))
            if st == 'CANCELLED':
                for d in descendants(snap, wid):
                    pt = tasks.get(ws[d]['task_execution_id'])
                    if ws[d]['state'] == 'CANCELLED' and pt is not None \
                            and pt['state'] != 'CANCELLED':
                        v.append('sub-workflow %s is CANCELLED but its '
                                 'parent task %s is %s'
                                 % (ws[d]['name'], pt['name'], pt['state']))
        rep = env.W.extra.get('reports', {})
        for w in ws.values():
            if w['task_execution_id'] and w['state'] in FINAL:
                n = rep.get(json.dumps(w['id']), rep.get(w['id'], 0))
                if n != 1:
                    v.append('finished sub-workflow %s (%s) reported to its '
                             'parent %d times' % (w['name'], w['state'], n))
        key = json.dumps(wfscn.outcome_of(snap, with_ctx=False),
                         sort_keys=True, default=str)
        return key, v

    def _engine_cmd(self, method, **kw):
        base = super(StopScenario, self)._engine_cmd(method, **kw)

        def thunk():
            if method == 'stop_workflow':
                env.W.extra['last_stop_target'] = kw['wf_ex_id']
            base()
        return thunk


from checks import c08 as _c08      # noqa: E402


class StopPolicyScenario(_c08.PolicyScenario):
    """Stop at every point of a run whose tasks carry policies: wake-ups of
    delayed tasks, wait-after completions, timeout timers and remaining
    with-items iterations are the "late events" here (timers may fire while
    other events are in flight, as in C08); the oracles are StopScenario's
    plus the policy step oracles."""

    def spec(self):
        return ('checks.c11', 'StopPolicyScenario', self.kwargs())

    def setup(self):
        _c08.PolicyScenario.setup(self)
        env.W.extra['stopped'] = {}

    def extra_state(self):
        return [_c08.PolicyScenario.extra_state(self),
                sorted(env.W.extra['stopped'].items()),
                env.W.extra.get('pending_stop')]

    def check_step(self, pre, post, choice, ctx):
        v = StopScenario.check_step(self, pre, post, choice, ctx)
        v.extend(m for m in _c08.PolicyScenario.check_step(
            self, pre, post, choice, ctx) if m not in v)
        return v

    def check_terminal(self, snap, ctx):
        return StopScenario.check_terminal(self, snap, ctx)

    def _engine_cmd(self, method, **kw):
        base = _c08.PolicyScenario._engine_cmd(self, method, **kw)

        def thunk():
            if method == 'stop_workflow':
                env.W.extra['last_stop_target'] = kw['wf_ex_id']
            base()
        return thunk


def programs():
    T, direct = wfgen.T, wfgen.direct
    C = wfgen.curated()
    P = {}
    P['seq3'] = C['seq3']
    P['fork2'] = C['fork2']
    P['diamond'] = C['diamond']
    leaf = direct({'s1': T(key='s1', **{'on-success': ['s2']}),
                   's2': T(key='s2')})
    P['subwf'] = direct({'a': T(workflow='sub', **{'on-success': ['b']}),
                         'b': T()}, subs={'sub': leaf})
    mid = direct({'m1': T(workflow='sub')})
    P['subwf2'] = direct({'a': T(workflow='mid', **{'on-complete': ['b']}),
                          'b': T()}, subs={'mid': mid, 'sub': leaf})
    P['items_subwf'] = direct(
        {'a': T(workflow='sub', **{'with-items': 'i in <% $.xs %>',
                                   'on-success': ['b']}), 'b': T()},
        input={'xs': [1, 2]}, subs={'sub': direct({'s1': T(key='s1')})})
    # a join that runs a sub-workflow: it is created (WAITING) before the
    # stop and must not start a child below a cancelled execution when its
    # pending re-evaluation runs afterwards
    P['join_subwf'] = direct(
        {'a': T(**{'on-success': ['j']}), 'b': T(**{'on-success': ['j']}),
         'j': T(workflow='sub', join='all')},
        subs={'sub': direct({'s1': T(key='s1')})})
    # a result that arrives after the stop and cannot be handled (its
    # publish clause fails): the late failure must not touch the stopped
    # execution
    P['late_bad_publish'] = direct(
        {'a': T(**{'on-success': ['b']}),
         'b': T(publish={'v': ['bad']}, **{'on-success': ['c']}),
         'c': T()})
    badleaf = direct({'s1': T(key='s1', publish={'v': ['bad']})})
    P['subwf_late_bad_publish'] = direct(
        {'a': T(workflow='sub', **{'on-success': ['b']}), 'b': T()},
        subs={'sub': badleaf})
    return P


def scenarios(tier):
    quick = tier == 'quick'
    jobs = []
    for pname, prog in programs().items():
        keys = wfgen.action_keys(prog)
        for s in (prog.get('subs') or {}).values():
            keys = keys + wfgen.action_keys(s)
        assigns = [{k: ['S'] for k in keys}]
        if not quick or pname in ('seq3', 'subwf'):
            assigns.append({k: ['E' if k == keys[0] else 'S'] for k in keys})
        menus = [('stop_root', ['stop:SUCCESS', 'stop:ERROR',
                                'stop:CANCELLED'])]
        if prog.get('subs'):
            menus.append(('stop_sub', ['stop_sub:SUCCESS', 'stop_sub:ERROR',
                                       'stop_sub:CANCELLED']))
        for mname, menu in menus:
            for res in assigns:
                tag = ''.join(res[k][0] for k in sorted(res))
                scn = StopScenario('%s/%s/%s' % (pname, mname, tag), prog,
                                   results=res, menu=menu, max_cmds=1)
                jobs.append((scn, 0 if quick else 1,
                             40 if quick else 1200, 1))
                if pname in ('seq3', 'subwf', 'items_subwf'):
                    # the stop lands inside a transaction of the engine
                    # that has only read so far
                    jobs.append((common.variant(scn, '/overlap', rp=True),
                                 0 if quick else 1, 40 if quick else 1200,
                                 1))
        # stop of a paused execution (PAUSED -> ERROR / CANCELLED are legal
        # moves; SUCCESS is not)
        if pname in ('seq3', 'subwf'):
            res = assigns[0]
            tag = ''.join(res[k][0] for k in sorted(res))
            scn = StopScenario(
                '%s/pause_then_stop/%s' % (pname, tag), prog, results=res,
                menu=['pause', 'stop:ERROR', 'stop:CANCELLED'], max_cmds=2,
                sequences=[['pause', 'stop:ERROR'],
                           ['pause', 'stop:CANCELLED']])
            jobs.append((scn, 0 if quick else 1, 40 if quick else 1200, 1))
        # the same stop repeated on the (then finished) execution
        if pname in ('seq3', 'subwf', 'late_bad_publish'):
            res = assigns[0]
            tag = ''.join(res[k][0] for k in sorted(res))
            for st in ('ERROR', 'CANCELLED', 'SUCCESS'):
                seqs = [['stop:' + st, 'stop_any:' + st]]
                menu = ['stop:' + st, 'stop_any:' + st]
                if prog.get('subs'):
                    seqs.append(['stop_sub:' + st, 'stop_sub_any:' + st])
                    menu += ['stop_sub:' + st, 'stop_sub_any:' + st]
                scn = StopScenario('%s/stop_twice_%s/%s' % (pname, st, tag),
                                   prog, results=res, menu=menu, max_cmds=2,
                                   sequences=seqs)
                jobs.append((scn, 0 if quick else 1,
                             40 if quick else 1200, 1))
    # the database refuses the first commit of every stop command as a
    # deadlock victim: the engine retries the transaction, and whatever the
    # first attempt had queued for after its commit must not happen
    for scn, bound, secs, na in list(jobs):
        if not scn.rp:
            jobs.append((common.variant(scn, '/dbretry', cmd_db_fault=True),
                         0, secs, na))
    # every policy program of C08 stopped at every point: wake-ups of
    # delayed tasks, wait-after completions, timeout timers and remaining
    # with-items iterations are late events too
    for name, prog, res, extra in _c08.programs(tier):
        if 'menu' in extra:
            continue
        scn = StopPolicyScenario(
            'policy/%s/stop_root' % name, prog, results=res,
            menu=['stop:SUCCESS', 'stop:ERROR', 'stop:CANCELLED'],
            max_cmds=1, **extra)
        jobs.append((scn, 0 if quick else 1, 40 if quick else 1200, 1))
    return jobs


def main(tier):
    rep = common.Report(PROP, tier)
    jobs = common.rotate(scenarios(tier))
    deadline = time.time() + (270 if tier == 'quick' else 1500)
    res = common.parallel_map(common.explore_job, jobs, deadline=deadline)
    rep.add_explore_results(jobs, res)
    rep.assumptions = [
        'stop is delivered at the point where it is issued; sub-workflows '
        'are started in-process (start_subworkflows_via_rpc off) in quick',
        'transactions are atomic steps',
    ]
    return rep.finish(
        rule='programs (incl. nesting depth 2 and with-items of '
             'sub-workflows) x results x stop(state) on root / nested '
             'execution at every point x interleavings within the bound; '
             'transition and terminal oracles as in the module docstring')
