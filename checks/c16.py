"""C16 - every REST operation is authorised and guarded before it has any
effect.

OpMC over the real WSGI application (pecan test app of the tree under test,
real oslo.policy enforcer, real DB API on in-memory SQLite, real engine
behind an inline RPC transport).

Enumerated (exhaustively, no sampling):
  * the controller tree is walked statically -> every exposed method;
  * AUTH   every guarded method x request variant (resource present/absent,
           scope private/public, plain / all_projects / project_id listing)
           x policy configuration (documented defaults with a member and
           with an admin caller, every rule denied, and each single rule
           denied on its own) - i.e. the full route x rule matrix;
  * PROBE  every method the reference knows no rule for, with every rule
           denied;
  * GUARD  executions PUT: current state x requested state x description x
           env; tasks PUT: current state x requested state x reset x
           with-items; action executions PUT: current state x requested
           state x output x ad-hoc/task action; executions DELETE: current
           state x force;
  * SEQ    (thorough) denied request followed by an allowed request, for all
           pairs: the result equals the allowed request alone.
Oracle = mc/c16_ref.py (rules, documented defaults, documented moves).
"""
import ast
import inspect
import json
import os
import textwrap
import time

from mc import c16_app as A
from mc import c16_ref as ref
from mc import env
from checks import common

PROP = 'C16'

_FX = {}


def fixtures():
    if not _FX:
        snap, fx = A.build_fixtures()
        _FX['snap'], _FX['fx'] = snap, fx
        _FX['routes'] = ref.routes(fx)
        _FX['unguarded'] = ref.unguarded(fx)
        A.restore(snap, fx['_ids'] + 1000, fx['_clock'])
        _FX['dump0'] = A.dump_db()
    return _FX


def kstr(key):
    return '%s.%s@%s' % (key[0], key[2], key[1] or '/')


# ---------------------------------------------------------------- static walk
_INTERNAL = ('_route', '_lookup', '_default')


def _is_ctrl(o):
    return (not inspect.isroutine(o) and not inspect.isclass(o) and
            type(o).__module__.startswith('mistral.api.controllers'))


def _exposed(obj):
    for n in sorted(dir(obj)):
        if n.startswith('__'):
            continue
        try:
            a = getattr(obj, n)
        except Exception:
            continue
        if inspect.ismethod(a) and getattr(a, 'exposed', False):
            yield n, a


def _enforce_calls(fn):
    """[(rule literal, index of top-level statement, is plain statement)]"""
    f = inspect.unwrap(fn)
    f = getattr(f, '__func__', f)
    try:
        src = textwrap.dedent(inspect.getsource(f))
        body = ast.parse(src).body[0].body
    except Exception:
        return None
    if body and isinstance(body[0], ast.Expr) and isinstance(
            getattr(body[0], 'value', None), ast.Constant):
        body = body[1:]
    out = []
    for i, st in enumerate(body):
        for node in ast.walk(st):
            if (isinstance(node, ast.Call) and
                    isinstance(node.func, ast.Attribute) and
                    node.func.attr == 'enforce' and node.args):
                a0 = node.args[0]
                out.append((a0.value if isinstance(a0, ast.Constant) else '?',
                            i, isinstance(st, ast.Expr) and st.value is node))
    return out


def static_walk():
    """Every exposed controller method reachable from the root controller:
    {(class, mount path, method): {'enforce': [...]}}."""
    from mistral.api.controllers import root
    from mistral.api.controllers.v2 import member
    found = {}
    lookups = []

    def walk(obj, path, seen):
        if id(obj) in seen:
            return
        seen = seen | {id(obj)}
        for n, m in _exposed(obj):
            if n == '_lookup':
                lookups.append((type(obj).__name__, path))
            if n in _INTERNAL:
                continue
            found[(type(obj).__name__, path, n)] = {
                'enforce': _enforce_calls(m)}
        for n in sorted(dir(obj)):
            if n.startswith('_'):
                continue
            try:
                a = getattr(obj, n)
            except Exception:
                continue
            if _is_ctrl(a):
                walk(a, path + '/' + n, seen)

    walk(root.RootController(), '', frozenset())
    # the only dynamic sub-tree: WorkflowsController._lookup -> members
    walk(member.MembersController('workflow', ref.ABSENT_ID),
         '/v2/workflows/{id}/members', frozenset())
    return found, lookups


# ---------------------------------------------------------------- cases
def _family(rules):
    """Documented rules of the resources a request touches + base rules."""
    pre = {r.split(':', 1)[0] for r in rules}
    return sorted(n for n in ref.RULES if n.split(':', 1)[0] in pre) + \
        list(ref.BASE_RULES)


def policy_configs(tier, rules):
    """(caller is admin, rules overridden to '!') for one request variant.
    quick: each single rule of the same resource family; thorough: each
    single rule of the whole registry, for both callers."""
    cfgs = [(False, ()), (True, ()), (True, ('*',)), (False, ('*',))]
    if tier == 'thorough':
        names = sorted(ref.RULES) + list(ref.BASE_RULES)
        for x in names:
            cfgs.append((True, (x,)))
        for x in names:
            cfgs.append((False, (x,)))
    else:
        for x in _family(rules):
            cfgs.append((True, (x,)))
    return cfgs


def auth_cases(tier, keys):
    R = fixtures()['routes']
    for key in sorted(R):
        if key not in keys:
            continue
        for i, var in enumerate(R[key]):
            for admin, denied in policy_configs(tier, var['rules']):
                yield {'kind': 'auth', 'key': list(key), 'vi': i,
                       'v': var['v'], 'admin': admin, 'deny': list(denied)}


def probe_cases(keys):
    for key in sorted(fixtures()['unguarded']):
        if key not in keys:
            continue
        for admin in (False, True):
            yield {'kind': 'probe', 'key': list(key), 'admin': admin}


def guard_cases():
    for cur in ref.WF_STATES:
        for st in ref.REQ_STATES:
            for desc in (None, 'new description'):
                for envv in (None, {'k2': 'v2'}):
                    yield {'kind': 'guard', 'g': 'exec_put', 'cur': cur,
                           'state': st, 'desc': desc, 'env': envv}
    for cur in ref.TASK_STATES:
        for st in ref.REQ_STATES:
            for reset in (None, True, False):
                for items in (False, True):
                    yield {'kind': 'guard', 'g': 'task_put', 'cur': cur,
                           'state': st, 'reset': reset, 'items': items}
    for cur in ref.WF_STATES:
        for st in ref.REQ_STATES:
            for out in (None, json.dumps({'r': 1})):
                for adhoc in (True, False):
                    yield {'kind': 'guard', 'g': 'action_put', 'cur': cur,
                           'state': st, 'output': out, 'adhoc': adhoc}
    for cur in ref.WF_STATES:
        for force in (None, False, True):
            yield {'kind': 'guard', 'g': 'exec_delete', 'cur': cur,
                   'force': force}


def seq_cases(keys):
    """(denied request, allowed request) pairs: every request variant as
    the denied one x every variant on an existing resource (or creating a
    new one) as the allowed one."""
    R = fixtures()['routes']
    vs = [(key, i) for key in sorted(R) if key in keys
          for i in range(len(R[key]))]
    for dk, di in vs:
        for ak, ai in vs:
            if not R[ak][ai]['present']:
                continue
            yield {'kind': 'seq', 'dkey': list(dk), 'dvi': di,
                   'akey': list(ak), 'avi': ai}


def case_id(c):
    k = c['kind']
    if k == 'auth':
        return 'auth:%s/%s|actor=%s|deny=%s' % (
            kstr(c['key']), c['v'], 'admin' if c['admin'] else 'member',
            ','.join(c['deny']) or '-')
    if k == 'probe':
        return 'probe:%s|actor=%s|deny=*' % (
            kstr(c['key']), 'admin' if c['admin'] else 'member')
    if k == 'guard':
        rest = ','.join('%s=%s' % (x, c[x]) for x in sorted(c)
                        if x not in ('kind', 'g'))
        return 'guard:%s|%s' % (c['g'], rest)
    if k == 'seq':
        return 'seq:%s#%d->%s#%d' % (kstr(c['dkey']), c['dvi'],
                                     kstr(c['akey']), c['avi'])
    return '%s:%s' % (k, json.dumps(c, sort_keys=True))


# ---------------------------------------------------------------- execution
def _send(var, admin, project=None):
    return A.send(var['http'], var['url'], var['body'], var['ctype'],
                  project=project or var.get('project', 'P1'), admin=admin)


def _sync_calls():
    return [(m.topic, m.method,
             {k: A.SER.deserialize_entity(None, v)
              for k, v in m.kwargs.items()}) for m in A.SYNC_LOG]


def run_auth(c):
    F = fixtures()
    var = F['routes'][tuple(c['key'])][c['vi']]
    A.restore(F['snap'], F['fx']['_ids'] + 1000, F['fx']['_clock'])
    A.set_policy(c['deny'])
    before = F['dump0']
    r = _send(var, c['admin'])
    after = A.dump_db()
    refuser = ref.decision(var['rules'], c['admin'], c['deny'])
    viol, note = [], None
    what = '%s %s' % (var['http'], var['url'])
    if refuser:
        if r['status'] != 403:
            viol.append(('not-denied',
                         'rule %s refuses the caller but %s answered %s '
                         '(expected 403)' % (refuser, what, r['status'])))
        d = A.diff_db(before, after)
        if d:
            viol.append(('denied-but-db-changed',
                         'caller denied by %s, yet the database changed: %s'
                         % (refuser, '; '.join(d[:6]))))
        if r['msgs']:
            viol.append(('denied-but-message-sent',
                         'caller denied by %s, yet messages were sent: %s'
                         % (refuser, r['msgs'][:3])))
        rs = A.resource_sql(r['sql'])
        if rs and r['status'] == 403:
            viol.append(('denied-after-db-access',
                         'caller denied by %s only after the database was '
                         'accessed: %s' % (refuser, rs[0][:160])))
    else:
        if r['status'] == 403:
            viol.append(('spurious-403',
                         'no applicable rule (%s) refuses the caller but %s '
                         'answered 403: %s' % (var['rules'], what,
                                               r['text'][:120])))
        elif r['status'] not in var['ok']:
            note = '%s -> %s %s (expected %s)' % (what, r['status'],
                                                  r['text'][:100], var['ok'])
    return {'status': r['status'], 'hash': A.state_hash(after, r['msgs']),
            'viol': viol, 'note': note, 'denied': bool(refuser),
            'changed': before != after}


def run_probe(c):
    F = fixtures()
    u = F['unguarded'][tuple(c['key'])]
    A.restore(F['snap'], F['fx']['_ids'] + 1000, F['fx']['_clock'])
    A.set_policy(('*',))
    before = F['dump0']
    r = A.send(u['http'], u['url'], u['body'], u['ctype'], admin=c['admin'])
    after = A.dump_db()
    d = A.diff_db(before, after)
    viol = []
    what = '%s %s' % (u['http'], u['url'])
    if u['readonly']:
        if d or r['msgs']:
            viol.append(('public-route-has-effect',
                         '%s has no policy rule and is documented as '
                         'read-only, but changed: %s %s'
                         % (what, '; '.join(d[:6]), r['msgs'][:3])))
    elif r['status'] != 403 or d:
        viol.append(('norule',
                     'state-changing operation %s is not guarded by any '
                     'policy rule: with every rule denied it answered %s '
                     '(expected 403) and changed: %s'
                     % (what, r['status'], '; '.join(d[:6]) or 'nothing')))
    return {'status': r['status'], 'hash': A.state_hash(after, r['msgs']),
            'viol': viol, 'note': None, 'denied': not u['readonly'],
            'changed': bool(d)}


def _guard_request(c, fx):
    """-> (pre sql, http, url, body, table, id, verdict, expected call)"""
    g = c['g']
    if g == 'exec_put':
        i = fx['ex_run']
        body = {}
        if c['state'] is not None:
            body['state'] = c['state']
        if c['desc'] is not None:
            body['description'] = c['desc']
        if c['env'] is not None:
            body['params'] = json.dumps({'env': c['env']})
        v, call = ref.exec_put(c['cur'], c['state'], c['desc'], c['env'])
        return ('workflow_executions_v2', i, 'PUT', '/v2/executions/' + i,
                body, v, call, 'wf_ex_id')
    if g == 'task_put':
        i = fx['t_items'] if c['items'] else fx['t_err']
        body = {}
        if c['state'] is not None:
            body['state'] = c['state']
        if c['reset'] is not None:
            body['reset'] = c['reset']
        v, call = ref.task_put(c['cur'], c['state'], c['reset'], c['items'])
        return ('task_executions_v2', i, 'PUT', '/v2/tasks/' + i, body, v,
                call, 'task_ex_id')
    if g == 'action_put':
        i = fx['a_adhoc_run'] if c['adhoc'] else fx['a_run']
        body = {}
        if c['state'] is not None:
            body['state'] = c['state']
        if c['output'] is not None:
            body['output'] = c['output']
        v, call = ref.action_put(c['cur'], c['state'])
        return ('action_executions_v2', i, 'PUT',
                '/v2/action_executions/' + i, body, v, call, 'action_ex_id')
    if g == 'exec_delete':
        i = fx['ex_run']
        url = '/v2/executions/' + i
        if c['force'] is not None:
            url += '?force=%s' % ('true' if c['force'] else 'false')
        return ('workflow_executions_v2', i, 'DELETE', url, None,
                ref.exec_delete(c['cur'], c['force']), None, None)
    raise A.HarnessError('unknown guard ' + g)


def run_guard(c):
    F = fixtures()
    fx = F['fx']
    table, rid, http, url, body, verdict, call, idarg = _guard_request(c, fx)
    A.restore(F['snap'], fx['_ids'] + 1000, fx['_clock'])
    A.apply_sql([('update %s set state=? where id=?' % table,
                  (c['cur'], rid))])
    before = A.dump_db()
    r = A.send(http, url, body, None, admin=False)
    after = A.dump_db()
    d = A.diff_db(before, after)
    sync = _sync_calls()
    now = A.row_state(table, rid)
    st = r['status']
    what = '%s %s %s on %s in state %s' % (http, url, json.dumps(body),
                                          table, c['cur'])
    viol = []

    def refused_ok():
        """A request that is not a documented move must have no effect."""
        bad = []
        if d:
            bad.append('database changed: ' + '; '.join(d[:6]))
        if r['pending']:
            bad.append('messages left pending: %s' % r['pending'][:3])
        return bad

    def move_ok():
        bad = []
        names = [(t, m) for t, m, _ in sync]
        if st < 400 and names != [(env.CONF.engine.topic, call[0])]:
            bad.append('engine calls %s (documented: exactly one %s)'
                       % (names, call[0]))
        for t, m, kw in sync:
            if m != call[0]:
                bad.append('undocumented engine call %s' % m)
                continue
            if kw.get(idarg) != rid:
                bad.append('%s addressed %s, not %s' % (m, kw.get(idarg),
                                                        rid))
            for k, v in call[1].items():
                if kw.get(k) != v:
                    bad.append('%s carries %s=%r (documented %r)'
                               % (m, k, kw.get(k), v))
        if now not in (c['cur'], c['state']):
            bad.append('state moved %s -> %s, requested %s'
                       % (c['cur'], now, c['state']))
        if st >= 400 and now != c['cur']:
            bad.append('answered %s but state moved %s -> %s'
                       % (st, c['cur'], now))
        return bad

    if c['g'] == 'exec_delete':
        if verdict == ref.REFUSE:
            bad = refused_ok()
            if bad:
                viol.append(('guard-not-refused',
                             'unfinished execution deleted without force: '
                             '%s: %s' % (what, '; '.join(bad))))
        else:
            if st < 300 and now is not None:
                viol.append(('guard-delete-noop',
                             '%s answered %s but the row is still there'
                             % (what, st)))
            if st >= 400 and d:
                viol.append(('guard-error-but-changed',
                             '%s answered %s but changed %s'
                             % (what, st, '; '.join(d[:6]))))
    elif verdict == ref.REFUSE:
        bad = refused_ok()
        if bad:
            viol.append(('guard-not-refused',
                         'not a documented move, must be refused without '
                         'effect: %s: %s' % (what, '; '.join(bad))))
    elif verdict == ref.FIELD:
        bad = []
        if sync:
            bad.append('engine called: %s' % [(t, m) for t, m, _ in sync])
        if now != c['cur']:
            bad.append('state moved %s -> %s' % (c['cur'], now))
        if st >= 400 and d:
            bad.append('answered %s but changed %s' % (st, '; '.join(d[:6])))
        other = [x for x in d if not x.startswith(table + ': row ' + rid)]
        if other:
            bad.append('other rows changed: ' + '; '.join(other[:6]))
        if bad:
            viol.append(('guard-field-update',
                         'field-only update must not move state: %s: %s'
                         % (what, '; '.join(bad))))
    elif verdict == ref.MOVE:
        bad = move_ok()
        if bad:
            viol.append(('guard-move',
                         'documented move handled wrongly: %s: %s'
                         % (what, '; '.join(bad))))
    elif verdict == ref.MAY:
        if refused_ok() and move_ok():
            viol.append(('guard-move',
                         'neither refused cleanly nor a documented move: '
                         '%s: %s' % (what, '; '.join(move_ok()))))
    return {'status': st, 'hash': A.state_hash(after, r['msgs']),
            'viol': viol, 'note': None, 'denied': verdict == ref.REFUSE,
            'changed': bool(d), 'verdict': verdict,
            'moved': now != c['cur'],
            'accepted_noop': verdict == ref.REFUSE and st < 400 and not d}


_ALONE = {}


def run_seq(c):
    """denied request then allowed request == allowed request alone."""
    F = fixtures()
    dv = F['routes'][tuple(c['dkey'])][c['dvi']]
    av = F['routes'][tuple(c['akey'])][c['avi']]
    ids = F['fx']['_ids'] + 1000
    ak = (tuple(c['akey']), c['avi'])
    if ak not in _ALONE:
        A.restore(F['snap'], ids, F['fx']['_clock'])
        ra = _send(av, True)
        _ALONE[ak] = (ra['status'], A.state_hash(A.dump_db(), ra['msgs']))
    alone = _ALONE[ak]
    A.restore(F['snap'], ids, F['fx']['_clock'])
    A.set_policy((dv['rules'][0],))
    rd = _send(dv, True)
    A.set_policy(())
    env.Ids.n = ids
    n = len(env.W.msg_log)
    rb = _send(av, True)
    both = (rb['status'], A.state_hash(A.dump_db(), rb['msgs']))
    viol = []
    if rd['status'] != 403 or n:
        viol.append(('not-denied', 'seq: %s %s with %s denied answered %s'
                     % (dv['http'], dv['url'], dv['rules'][0],
                        rd['status'])))
    if alone != both:
        viol.append(('denied-request-left-trace',
                     'after the denied %s %s, %s %s gave %s; alone it gives '
                     '%s' % (dv['http'], dv['url'], av['http'], av['url'],
                             both, alone)))
    return {'status': rb['status'], 'hash': both[1], 'viol': viol,
            'note': None, 'denied': True, 'changed': False, 'nreq': 2}


def _target_class(c):
    """Groups guard disagreements per call site: documented target state,
    undocumented target state, no state / delete."""
    if c['g'] == 'exec_delete':
        return 'force=%s' % c['force']
    st = c.get('state')
    if st is None:
        return 'no-state'
    doc = {'exec_put': ('PAUSED', 'RUNNING') + ref.FINAL,
           'task_put': ('RUNNING', 'SKIPPED'),
           'action_put': ('PAUSED', 'RUNNING') + ref.FINAL}[c['g']]
    return 'documented-target' if st in doc else 'undocumented-target'


def xlist_cases():
    for route in sorted(A.XP_LISTS):
        for q in ('project_id=' + A.XP,
                  'project_id=' + A.XP + '&fields=name',
                  'project_id=' + A.XP + '&scope=private'):
            yield {'kind': 'xlist', 'route': route, 'q': q,
                   'dkey': ['cross-project-list', route, 'get_all']}


def run_xlist(c):
    """Listing across projects requires the admin-only rule: a member of
    P1 asking for another project's resources by project_id, under the
    default policy, gets none of that project's private rows."""
    F = fixtures()
    A.restore(F['snap'], F['fx']['_ids'] + 1000, F['fx']['_clock'])
    A.set_policy(())
    r = A.send('GET', '%s?%s' % (c['route'], c['q']), admin=False)
    after = A.dump_db()
    d = A.diff_db(F['dump0'], after)
    viol = []
    marker = A.XP_LISTS[c['route']]
    body = json.dumps(r.get('json'), default=str) + (r['text'] or '')
    if 200 <= r['status'] < 300 and marker in body:
        viol.append(('cross-project-list',
                     'GET %s?%s by a non-admin of another project, with the '
                     'list:all_projects rule at its admin-only default, '
                     'returned the private %s of project %s'
                     % (c['route'], c['q'], marker, A.XP)))
    return {'status': r['status'], 'hash': A.state_hash(after, r['msgs']),
            'viol': viol, 'note': None, 'denied': r['status'] == 403,
            'changed': bool(d)}


RUNNERS = {'auth': run_auth, 'probe': run_probe, 'guard': run_guard,
           'seq': run_seq, 'xlist': run_xlist}


def run_case(c):
    return RUNNERS[c['kind']](c)


def _chunk_job(chunk, deadline):
    out = []
    for c in chunk:
        if deadline and time.time() > deadline:
            out.append(None)
            continue
        out.append(run_case(c))
    return out


# ---------------------------------------------------------------- main
def main(tier):
    rep = common.SimpleReport(PROP, tier, level='model_checking')
    # the whole space costs about a minute and a half: the quick tier
    # explores what the thorough tier explores
    tier = 'thorough'
    F = fixtures()
    R, U = F['routes'], F['unguarded']

    # ---- static enumeration of the controller tree
    found, lookups = static_walk()
    known = set(R) | set(U)
    unknown = sorted(set(found) - known)
    vanished = sorted(known - set(found))
    for key in unknown:
        rep.violation(
            'unprobed:%s' % kstr(key),
            'exposed controller method %s is not known to the reference '
            '(no documented rule, no request template): it cannot be shown '
            'to be guarded; statically found enforce calls: %s'
            % (kstr(key), found[key]['enforce']),
            {'case': {'kind': 'static', 'key': list(key)}})
    static_mismatch = []
    for key in sorted(set(found) & set(R)):
        want = []
        for v in R[key]:
            for x in v['rules']:
                if x not in want:
                    want.append(x)
        enf = found[key]['enforce']
        got = [x[0] for x in enf or []]
        first = bool(enf) and enf[0][1] == 0 and enf[0][2]
        if enf is None or got != want or not first:
            static_mismatch.append({'method': kstr(key), 'reference': want,
                                    'source': enf})
    docs = A.documented_operations()
    registry = A.registered_defaults()
    reg_mismatch = sorted(
        n for n in ref.RULES if 'rule:' + ref.RULES[n] != registry.get(n))

    keys = set(found)
    core = list(auth_cases(tier, keys)) + list(probe_cases(keys)) + \
        list(guard_cases()) + list(xlist_cases())
    seq = list(seq_cases(keys)) if tier == 'thorough' else []
    cases = core + seq
    n_core = len(core)

    def mk_chunks(lst, size):
        # strided, so that costly requests (DSL validation) spread evenly
        n = max(1, -(-len(lst) // size))
        order = common.rotate(list(range(len(lst))))
        return [[lst[i] for i in order[j::n]] for j in range(n)]

    chunks = mk_chunks(core, 40) + mk_chunks(seq, 80)
    deadline = time.time() + (150 if tier == 'quick' else 780)
    res = common.parallel_map(_chunk_job, chunks, deadline=deadline)
    results = {}
    errors = []
    for ch, rr in zip(chunks, res):
        if rr is None:
            errors.append('worker died')
            continue
        if isinstance(rr, dict):
            if rr.get('error'):
                errors.append(rr['error'][-1500:])
            continue                      # skipped at the deadline
        for c, r in zip(ch, rr):
            if r is not None:
                results[case_id(c)] = (c, r)
    if errors:
        raise A.HarnessError('worker failed:\n' + errors[0])
    complete = len(results) == len(cases)

    viols = []
    notes = []
    accepted_noop = []
    cnt = rep.counters
    for cid in sorted(results):
        c, r = results[cid]
        # trivial = an allowed request that fails for a reason unrelated to
        # the property (e.g. 404 on an absent resource)
        rep.case(cid, nontrivial=bool(r['denied'] or r['changed'] or
                                      200 <= r['status'] < 300))
        rep.state(r['hash'])
        rep.transition(r.get('nreq', 1))
        k = c['kind']
        cnt['cases_' + k] += 1
        cnt['status_%dxx' % (r['status'] // 100)] += 1
        if k in ('auth', 'probe'):
            cnt['expected_denied' if r['denied']
                else 'expected_allowed'] += 1
            if not r['denied'] and r['changed']:
                cnt['allowed_requests_that_changed_db'] += 1
        if k == 'guard':
            cnt['guard_' + r['verdict']] += 1
            if r['moved']:
                cnt['guard_state_actually_moved'] += 1
            if r['verdict'] == ref.REFUSE and r['status'] >= 400:
                cnt['guard_refused_with_4xx'] += 1
            if r['accepted_noop']:
                accepted_noop.append(cid)
        if r['note']:
            notes.append('%s: %s' % (cid, r['note']))
        for typ, msg in r['viol']:
            viols.append((cid, typ, msg, c))
    if notes and not viols:
        # an allowed request on a present resource that does not succeed
        # means the request templates are stale: the check would be vacuous
        raise A.HarnessError('request templates out of date (%d):\n%s'
                             % (len(notes), '\n'.join(notes[:20])))

    # one violation per (operation, kind of disagreement); the rest counted
    seen = {}
    for cid, typ, msg, c in viols:
        if c['kind'] == 'auth':
            gk = (typ, kstr(c['key']))
        elif c['kind'] == 'probe':
            gk = (typ, kstr(c['key']))
        elif c['kind'] == 'guard':
            gk = (typ, c['g'], _target_class(c))
        else:
            gk = (typ, kstr(c['dkey']))
        if gk in seen:
            seen[gk][1] += 1
            continue
        seen[gk] = [(cid, typ, msg, c), 1]
    for gk in sorted(seen, key=str):
        (cid, typ, msg, c), n = seen[gk]
        vid = '%s:%s' % (typ, cid.split(':', 1)[1]) if typ != 'norule' \
            else 'norule:%s' % kstr(c['key'])
        rep.violation(vid, '%s [%d case(s) of this kind for this operation]'
                      % (msg, n), {'case': c, 'type': typ})
    cnt['violating_cases_total'] = len(viols)

    # ---- determinism audit: re-execute a slice from scratch in this process
    ids = sorted(results)
    step = max(1, len(ids) // (150 if tier == 'quick' else 400))
    for cid in ids[::step]:
        c, r = results[cid]
        r2 = run_case(c)
        if (r2['status'], r2['hash'], r2['viol']) != (
                r['status'], r['hash'], r['viol']):
            raise A.HarnessError('case %s is not reproducible' % cid)
        rep.validated += 1

    for cid in ids[::max(1, len(ids) // 5)][:5]:
        c, r = results[cid]
        rep.sample({'case': c, 'status': r['status'],
                    'expected_refused': r['denied'],
                    'db_changed': r['changed']})

    n_variants = sum(len(v) for v in R.values())
    rep.extra = {
        'exposed_methods_found': len(found),
        'guarded_methods_in_reference': len(R),
        'unguarded_methods_in_reference': len(U),
        'request_variants': n_variants,
        'policy_configurations_per_variant': sorted({
            len(policy_configs(tier, v['rules']))
            for vs in R.values() for v in vs}),
        'documented_rules': len(ref.RULES),
        'dynamic_lookup_controllers': lookups,
        'exposed_methods_unknown_to_reference': [kstr(k) for k in unknown],
        'reference_methods_not_exposed': [kstr(k) for k in vanished],
        'static_enforce_vs_reference_mismatches': static_mismatch,
        'policy_registry_vs_documented_default_mismatches': reg_mismatch,
        'undocumented_requests_answered_2xx_without_effect': accepted_noop,
        'allowed_requests_with_unexpected_status': notes[:20],
        'rules_documented_without_route': sorted(
            n for n in docs if n not in ref.RULES and
            n not in ref.BASE_RULES),
        'bounds': {'tier': tier, 'cases': len(cases), 'core_cases': n_core,
                   'seq_pairs': len(cases) - n_core,
                   'workers': common.NPROC, 'completed': len(results)},
    }
    rep.assumptions = [
        'Keystone is absent: the app is built without keystonemiddleware '
        'and requests carry the headers it would set (X-Identity-Status, '
        'X-Project-Id, X-Roles); trust creation/deletion is stubbed',
        'the caller always acts on its own project, so the owner half of '
        'admin_or_owner is true; denial is produced by admin-only defaults '
        'and by overriding rules to "!" in the real oslo.policy enforcer',
        'engine calls issued by controllers run at once on the real engine '
        'endpoint in the same process (inline transport); asynchronous '
        'messages stay pending and count as "message sent"',
        'SQLite in memory; "database unchanged" compares every row of every '
        'table before and after the request',
        'allow_action_execution_deletion=True so that an allowed delete of '
        'an action execution is distinguishable from a policy denial',
        'current states of executions/tasks/action executions in guard '
        'cases are set by a direct UPDATE on rows created by real runs',
    ]
    return rep.finish(
        rule='every exposed controller method (static walk of the '
             'controller tree) x request variant (present/absent, '
             'private/public, plain/all_projects/project_id) x policy '
             'configuration (defaults x member/admin, all rules denied, '
             + ('each single rule of the registry denied x member/admin; '
                'all (denied request, allowed request) pairs'
                if tier == 'thorough' else
                'each single rule of the same resource family denied') +
             '); guards: current state x requested '
             'state x fields; a case is one REST request from the fixture '
             'state, distinct by (operation, variant, caller, policy) or '
             '(guard, current state, requested state, fields); non-trivial '
             '= the reference expects a refusal, or the request changed the '
             'database, or it succeeded (trivial: allowed request failing '
             'for an unrelated reason such as 404); states = '
             'distinct canonical DB images + pending messages after the '
             'request',
        exhaustive=bool(complete and not vanished))


# ---------------------------------------------------------------- replay
def replay(doc):
    c = doc['case']
    if c['kind'] == 'static':
        found, _ = static_walk()
        F = fixtures()
        key = tuple(c['key'])
        if key in found and key not in F['routes'] and \
                key not in F['unguarded']:
            return True, 'exposed method %s unknown to the reference' \
                % kstr(key)
        return False, 'method known or gone'
    r = run_case(c)
    want = doc.get('type')
    for typ, msg in r['viol']:
        if want is None or typ == want:
            return True, '%s: %s' % (typ, msg)
    return False, 'status %s, no disagreement' % r['status']
