"""C03 - execution lifecycle is respected and finished results are final.

Engine explorer over small programs (plain, fork/join, async action,
sub-workflow, with-items) x results x all interleavings (bounded) x operator
commands issued at every point: pause, resume, stop(SUCCESS|ERROR|CANCELLED),
rerun (reset on/off), skip, external results / PAUSED / RUNNING updates of an
async action.  Transition oracle on every step (mc/lifecycle.py)."""
import json
import time

from checks import common
from mc import env, wfgen, wfscn, cmdscn, lifecycle

PROP = 'C03'


class LifeScenario(cmdscn.CmdScenario):
    def spec(self):
        return ('checks.c03', 'LifeScenario', self.kwargs())

    def check_step(self, pre, post, choice, ctx):
        v = []
        for where, cls, is_mistral, text in ctx.new_exceptions:
            # commands on executions in the wrong state are rejected with
            # declared errors; a duplicate/late result is rejected with
            # ValueError by design (C06) - neither is a lifecycle violation
            pass
        # the step that carries out a rerun command: the command itself, or
        # (when its transaction is explored in several steps) the activity
        # handling the rerun_workflow request
        rr = getattr(choice, 'is_rerun', False) or (
            choice.kind in ('act', 'msg') and
            (choice.info or '').split(':', 1)[0] == 'msg' and
            '.rerun_workflow' in (choice.info or ''))
        v.extend(lifecycle.lifecycle_violations(pre, post, is_rerun=rr,
                                                choice=choice))
        ev = env.W.events
        seen = getattr(env.W, '_c03_seen', 0)
        v.extend(lifecycle.monitor_violations(ev[seen:], is_rerun=rr))
        env.W._c03_seen = len(ev)
        return v

    def setup(self):
        env.install_state_monitor()
        super(LifeScenario, self).setup()

    def check_terminal(self, snap, ctx):
        key = json.dumps(wfscn.outcome_of(snap, with_ctx=False),
                         sort_keys=True, default=str)
        return key, []


from checks import c08 as _c08      # noqa: E402


class LifePolicyScenario(_c08.PolicyScenario):
    """The lifecycle oracles over runs whose tasks carry policies (delays,
    timers that may fire while other events are in flight, retries,
    with-items / sub-workflow tasks under policies) and operator commands."""

    def spec(self):
        return ('checks.c03', 'LifePolicyScenario', self.kwargs())

    def setup(self):
        env.install_state_monitor()
        _c08.PolicyScenario.setup(self)

    def check_step(self, pre, post, choice, ctx):
        return LifeScenario.check_step(self, pre, post, choice, ctx)

    def check_terminal(self, snap, ctx):
        return LifeScenario.check_terminal(self, snap, ctx)


def programs():
    T, direct = wfgen.T, wfgen.direct
    C = wfgen.curated()
    P = {}
    P['seq2'] = C['seq2']
    P['err_route'] = C['err_route']
    P['fork2'] = C['fork2']
    P['join_two_starts'] = C['join_two_starts']
    P['async1'] = direct({'a': T(action='async', **{'on-success': ['b']}),
                          'b': T()})
    P['retry1'] = direct({'a': T(retry={'count': 1, 'delay': 0})})
    sub = direct({'s1': T(key='s1')})
    P['subwf'] = direct({'a': T(workflow='sub', **{'on-success': ['b']}),
                         'b': T()}, subs={'sub': sub})
    P['out2'] = direct(
        {'a': T(publish={'v': ['lit', 1]}, **{'on-success': ['b']}),
         'b': T(publish={'w': ['result']})},
        output={'v': ['var', 'v'], 'w': ['var', 'w']})
    P['items2'] = direct(
        {'a': T(**{'with-items': 'i in <% $.xs %>', 'on-success': ['b']}),
         'b': T()}, input={'xs': ['i0', 'i1']})
    return P


MENUS = {
    'pause_resume': dict(menu=['pause', 'resume'], max_cmds=2,
                         sequences=[['pause', 'resume']]),
    'stop': dict(menu=['stop:SUCCESS', 'stop:ERROR', 'stop:CANCELLED'],
                 max_cmds=1),
    'stop_then_rerun': dict(
        menu=['stop:ERROR', 'rerun'], max_cmds=2,
        sequences=[['stop:ERROR', 'rerun'], ['stop:CANCELLED', 'rerun']]),
    'rerun_skip': dict(menu=['rerun', 'rerun_noreset', 'skip'], max_cmds=2),
    'pause_stop': dict(menu=['pause', 'stop:CANCELLED', 'stop:ERROR'],
                       max_cmds=2,
                       sequences=[['pause', 'stop:CANCELLED'],
                                  ['pause', 'stop:ERROR']]),
    'late_result': dict(menu=['late_result', 'stop:ERROR'], max_cmds=2,
                        sequences=[['late_result'],
                                   ['stop:ERROR', 'late_result'],
                                   ['stop:SUCCESS', 'late_result']]),
    'stop_resume': dict(menu=['stop:SUCCESS', 'stop:ERROR', 'stop:CANCELLED',
                              'resume_any', 'pause_any'],
                        max_cmds=2,
                        sequences=[['stop:SUCCESS', 'resume_any'],
                                   ['stop:ERROR', 'resume_any'],
                                   ['stop:CANCELLED', 'resume_any'],
                                   ['stop:SUCCESS', 'pause_any'],
                                   ['stop:ERROR', 'pause_any']]),
    'finished_cmds': dict(menu=['resume_any', 'pause_any',
                                'stop_any:SUCCESS', 'stop_any:ERROR',
                                'stop_any:CANCELLED'], max_cmds=1),
    'late_then_resume': dict(
        menu=['stop:ERROR', 'late_result', 'resume_any'], max_cmds=3,
        sequences=[['stop:ERROR', 'late_result', 'resume_any']]),
}
ASYNC_MENUS = {
    'async_updates': dict(menu=['async_pause', 'async_resume', 'async_err',
                                'async_cancel'], max_cmds=2),
    'async_late': dict(menu=['async_ok', 'async_err', 'stop:ERROR'],
                       max_cmds=2),
}
SUB_MENUS = {
    'sub_cmds': dict(menu=['pause_sub', 'resume_sub', 'stop_sub:CANCELLED',
                           'stop_sub:ERROR', 'resume', 'pause'], max_cmds=2),
}


OVERLAP_MENUS = ('stop', 'pause_resume', 'pause_stop', 'late_result',
                 'rerun_skip')
OVERLAP_PROGS = ('seq2', 'out2', 'subwf', 'items2', 'retry1')


def scenarios(tier):
    quick = tier == 'quick'
    jobs = []
    for pname, prog in programs().items():
        keys = wfgen.action_keys(prog)
        assigns = [{k: ['S'] for k in keys}]
        if keys:
            assigns.append({k: ['E' if k == keys[0] else 'S']
                            for k in keys})
            if not quick and len(keys) > 1:
                assigns.append({k: ['E' if k == keys[-1] else 'S']
                                for k in keys})
        if pname == 'retry1':
            assigns = [{'a': ['E', 'S']}, {'a': ['E', 'E']}]
        if pname == 'items2':
            assigns = [{'i0': ['S'], 'i1': ['S'], 'b': ['S']},
                       {'i0': ['E'], 'i1': ['S'], 'b': ['S']}]
        if pname == 'subwf':
            assigns = [{'s1': ['S'], 'b': ['S']}, {'s1': ['E'], 'b': ['S']}]
        menus = dict(MENUS)
        if pname == 'async1':
            menus.update(ASYNC_MENUS)
        if pname == 'subwf':
            menus.update(SUB_MENUS)
        for mname, m in menus.items():
            m_assigns = list(assigns)
            if mname in ('rerun_skip', 'stop_then_rerun') and keys and \
                    pname not in ('retry1', 'items2', 'subwf'):
                # the re-executed task succeeds at its second attempt
                m_assigns.append({k: (['E', 'S'] if k == keys[0] else ['S'])
                                  for k in keys})
            for res in m_assigns:
                tag = ''.join(''.join(res[k]) for k in sorted(res))
                scn = LifeScenario(
                    '%s/%s/%s' % (pname, mname, tag), prog, results=res,
                    wf_input=None, **m)
                k = 0 if quick else 1
                if mname in ('rerun_skip', 'stop_then_rerun',
                             'late_result') and pname in (
                        'seq2', 'out2', 'err_route', 'retry1'):
                    # commands that leave a request in flight (the restart
                    # of the task): one schedule deviation lets a later
                    # message overtake it
                    k = 1 if quick else 2
                jobs.append((scn, k, 30 if quick else 900, 1))
                if mname in OVERLAP_MENUS and pname in OVERLAP_PROGS:
                    # the command lands inside a transaction of the engine
                    # that has only read so far (READ COMMITTED overlap)
                    # (one command per run: two operator commands racing
                    # each other inside their transactions are not what the
                    # statement is about)
                    kw1 = dict(rp=True, max_cmds=1, sequences=None)
                    if mname in ('pause_resume',):
                        kw1 = dict(rp=True)
                    jobs.append((common.variant(scn, '/overlap', **kw1),
                                 0 if quick else 1, 30 if quick else 900,
                                 1))
    # the policy programs of C08 (timers may fire while other events are in
    # flight) under the lifecycle oracles, with stop / pause+resume / a late
    # result issued at every point
    for name, prog, res, extra in _c08.programs(tier):
        if 'menu' in extra:
            continue
        if quick and not name.startswith(('items_', 'sub_', 'wait_',
                                          'timeout', 'pair_', 'fail_on')):
            continue
        for mname in (('stop', 'pause_resume') if quick
                      else ('stop', 'pause_resume', 'late_result')):
            scn = LifePolicyScenario(
                'policy/%s/%s' % (name, mname), prog, results=res,
                **dict(extra, **MENUS[mname]))
            jobs.append((scn, 0 if quick else 1, 30 if quick else 900, 1))
    return jobs


def main(tier):
    rep = common.Report(PROP, tier)
    n, tv = lifecycle.states_table_violations()
    jobs = common.rotate(scenarios(tier))
    deadline = time.time() + (270 if tier == 'quick' else 1500)
    res = common.parallel_map(common.explore_job, jobs, deadline=deadline)
    rep.add_explore_results(jobs, res)
    rep.extra = {'state_pairs_checked_against_statement_table': n}
    for m in tv:
        rep.violations.append({'scenario': 'states-table', 'kind': 'table',
                               'message': m, 'path': [], '_scn': None})
    rep.assumptions = [
        'lifecycle is judged on committed states (one transaction = one '
        'step): a state overwritten inside a transaction is not observed',
        'commands are delivered at the point where they are issued',
    ]
    return rep.finish(
        rule='programs x results x command menus (<= 2 commands, issued at '
             'every point of every schedule within the deviation bound); '
             'every transition checked against the lifecycle table, '
             'finality of finished workflows / completed actions / '
             'succeeded tasks')
