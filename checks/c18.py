"""C18 - the execution expiration policy deletes only what it is configured
to delete.

OpMC: exhaustive enumeration of (population of execution trees) x (policy
settings); every case builds the population in the real DB through the real
DB API, runs ONE evaluation of the real periodic task
(`ExecutionExpirationPolicy(CONF).run_periodic_tasks`, i.e. the real enabling
logic of __init__ + run_execution_expiration_policy + the batch loop + the
DB queries + the foreign-key cascade) and compares the rows that are gone /
left with the independent reference model in mc/c18_ref.py.

Population families (all enumerated exhaustively inside their bounds):
  A  distinct ages: sequence of n roots ordered by age, each state in all 6,
     threshold cut k in 0..n (k roots strictly older than older_than=T),
     optionally the first non-older root exactly AT the threshold; flat trees
     (root + task + action), one project.  Cuts other than k=0 only differ
     from k=0 by a shift of all ages, which only older_than=T can observe, so
     they are run with older_than=T only.
  T  ties: multisets of (state, age class in {older, equal, newer}) with at
     least two roots in the same age class.
  B  projects and nesting: multisets of (state, age in {older, newer},
     project in {A, B}, shape in {flat, 1 nested level, 2 nested levels}),
     reduced by the A<->B project swap symmetry.  Sub-executions are
     finished and older than every root (they look eligible on their own).
Settings: older_than in {unset, 0, T} x max_finished_executions in
{unset, 0, 1, 2} x batch_size in {0, 1, 2, 5} x ignored_states in
{[], [ERROR], [SUCCESS, CANCELLED]} (144), restricted only where stated in
the evidence file.
"""
from mc import env  # noqa: E402  (must be first: import order, tree path)

import collections
import datetime
import hashlib
import itertools
import os
import time

from checks import common
from mc import c18_ref as ref

from mistral import context as auth_ctx
from mistral.db.v2 import api as db_api
from mistral.services import expiration_policy as ep

PROP = 'C18'
CONF = env.CONF
G = 'execution_expiration_policy'
T = 10                       # older_than value "T", minutes
SUB_AGE = (T + 20, T + 21)   # ages of nested level 1 / level 2 sub-executions
SUB_STATE = ('ERROR', 'SUCCESS')
STATES = ref.STATES
LET = {'IDLE': 'I', 'RUNNING': 'R', 'PAUSED': 'P', 'SUCCESS': 'S',
       'ERROR': 'E', 'CANCELLED': 'C'}
SHAPES = ('F', 'N1', 'N2')
DEPTH = {'F': 0, 'N1': 1, 'N2': 2}

OTS = (None, 0, T)
MFS = (None, 0, 1, 2)
BSS = (0, 1, 2, 5)
IGNS = ((), ('ERROR',), ('SUCCESS', 'CANCELLED'),
        ('SUCCESS', 'ERROR', 'CANCELLED'))
ALL = (OTS, MFS, BSS, IGNS)

AUTH_ON = [('auth_enable', True, 'pecan')]
MAX_VIOL_PER_KEY = 2


# ------------------------------------------------------------------ settings
def settings_of(sset):
    ots, mfs, bss, igns = sset
    for ot in ots:
        for mf in mfs:
            for bs in bss:
                for ign in igns:
                    yield {'ot': ot, 'mf': mf, 'bs': bs, 'ign': list(ign)}


def st_id(st):
    return 'ot=%s,mf=%s,bs=%d,ign=%s' % (
        'unset' if st['ot'] is None else st['ot'],
        'unset' if st['mf'] is None else st['mf'],
        st['bs'], '+'.join(st['ign']) or '-')


def apply_settings(st):
    CONF.set_override('evaluation_interval', 1, G)
    for name, key in (('older_than', 'ot'),
                      ('max_finished_executions', 'mf')):
        if st[key] is None:
            CONF.clear_override(name, G)      # really unset -> option default
        else:
            CONF.set_override(name, st[key], G)
    CONF.set_override('batch_size', st['bs'], G)
    CONF.set_override('ignored_states', list(st['ign']), G)


# ------------------------------------------------------------------ population
def code(root):
    state, age, proj, shape = root
    return '%s%d%s%s' % (LET[state], age, proj, shape)


def pop_id(pop):
    return '.'.join(code(r) for r in pop) or 'empty'


def _ts(age_min):
    return env.EPOCH - datetime.timedelta(minutes=age_min)


def _mk_wf(ents, wid, task_id, root_id, state, age, proj, depth, level):
    vals = {'id': wid, 'name': wid, 'workflow_name': 'wf', 'state': state,
            'created_at': _ts(age + 1), 'updated_at': _ts(age)}
    if task_id is not None:
        vals['task_execution_id'] = task_id
        vals['root_execution_id'] = root_id
    db_api.create_workflow_execution(vals)
    ents[wid] = {'kind': 'wf', 'root': root_id, 'parent': task_id,
                 'state': state, 'age': age * 60, 'project': proj}
    tstate = 'SUCCESS' if state in ref.TERMINAL else state
    t0 = wid + '.t0'
    db_api.create_task_execution({'id': t0, 'workflow_execution_id': wid,
                                  'name': 't0', 'state': tstate,
                                  'type': 'ACTION'})
    ents[t0] = {'kind': 'task', 'root': root_id, 'parent': wid,
                'state': tstate, 'project': proj}
    a0 = t0 + '.a0'
    db_api.create_action_execution({'id': a0, 'task_execution_id': t0,
                                    'name': 'std.noop', 'state': tstate})
    ents[a0] = {'kind': 'action', 'root': root_id, 'parent': t0,
                'state': tstate, 'project': proj}
    if depth > 0:
        t1 = wid + '.t1'
        db_api.create_task_execution({'id': t1, 'workflow_execution_id': wid,
                                      'name': 't1', 'state': tstate,
                                      'type': 'WORKFLOW'})
        ents[t1] = {'kind': 'task', 'root': root_id, 'parent': wid,
                    'state': tstate, 'project': proj}
        _mk_wf(ents, t1 + '.s', t1, root_id, SUB_STATE[level],
               SUB_AGE[level], proj, depth - 1, level + 1)


def populate(pop):
    """Create the population through the real DB API, each tree under an
    auth context of its own project.  Returns the intended entity table."""
    ents = {}
    for i, (state, age, proj, shape) in enumerate(pop):
        rid = 'r%d' % i

        def mk(rid=rid, state=state, age=age, proj=proj, shape=shape):
            with db_api.transaction():
                _mk_wf(ents, rid, None, rid, state, age, proj, DEPTH[shape],
                       0)
        env.with_ctx(mk, env.default_ctx(project=proj))
    return ents


def _age_s(s):
    if s is None:
        return None
    t = datetime.datetime.strptime(str(s)[:19], '%Y-%m-%d %H:%M:%S')
    return int((env.now() - t).total_seconds())


def read_db():
    """id -> (kind, state, project, age_s, parent id, root_execution_id)."""
    c = env.raw_conn().cursor()
    rows = {}
    c.execute('select id, state, project_id, updated_at, task_execution_id, '
              'root_execution_id from workflow_executions_v2')
    for i, s, p, u, par, r in c.fetchall():
        rows[i] = ('wf', s, p, _age_s(u), par, r)
    c.execute('select id, state, project_id, workflow_execution_id '
              'from task_executions_v2')
    for i, s, p, par in c.fetchall():
        rows[i] = ('task', s, p, None, par, None)
    c.execute('select id, state, project_id, task_execution_id '
              'from action_executions_v2')
    for i, s, p, par in c.fetchall():
        rows[i] = ('action', s, p, None, par, None)
    return rows


def canon_hash(rows):
    """Hash of the DB content modulo ids: sorted forest of descriptors."""
    kids = collections.defaultdict(list)
    tops = []
    for i, r in rows.items():
        if r[4] is not None and r[4] in rows:
            kids[r[4]].append(i)
        elif r[0] == 'wf' and r[4] is None:
            tops.append(i)
        else:
            tops.append(i)          # dangling parent: keeps the state distinct

    def desc(i):
        r = rows[i]
        dangling = r[4] is not None and r[4] not in rows
        return (r[0], r[1], r[2], r[3], dangling,
                tuple(sorted(desc(k) for k in kids.get(i, ()))))
    forest = tuple(sorted(desc(i) for i in tops))
    return int.from_bytes(hashlib.blake2b(repr(forest).encode(),
                                          digest_size=8).digest(), 'big')


def check_population(ents, rows):
    """Harness sanity: the DB holds exactly the intended population."""
    if set(ents) != set(rows):
        raise env.HarnessError('population mismatch %r' % (
            sorted(set(ents) ^ set(rows)),))
    for i, e in ents.items():
        r = rows[i]
        if (r[0], r[1], r[2], r[4]) != (e['kind'], e['state'], e['project'],
                                        e['parent']):
            raise env.HarnessError('row %s differs: %r vs %r' % (i, r, e))
        if e['kind'] == 'wf' and r[3] != e['age']:
            raise env.HarnessError('age %s: %r vs %r' % (i, r[3], e['age']))


# ------------------------------------------------------------------ evaluate
class LoopWatchdog(BaseException):
    pass


def evaluate(limit):
    """One evaluation of the real periodic task.  Returns a dict."""
    cnt = {'expired': 0, 'superfluous': 0}
    orig_e = db_api.get_expired_executions
    orig_s = db_api.get_superfluous_executions

    def ge(*a, **kw):
        cnt['expired'] += 1
        if cnt['expired'] > limit:
            raise LoopWatchdog('expired')
        return orig_e(*a, **kw)

    def gs(*a, **kw):
        cnt['superfluous'] += 1
        if cnt['superfluous'] > limit:
            raise LoopWatchdog('superfluous')
        return orig_s(*a, **kw)

    out = {'exc': None, 'watchdog': None, 'scheduled': 0}
    db_api.get_expired_executions = ge
    db_api.get_superfluous_executions = gs
    try:
        ep.ExecutionExpirationPolicy._periodic_tasks = []
        ep.ExecutionExpirationPolicy._periodic_spacing = {}
        pt = ep.ExecutionExpirationPolicy(CONF)
        out['scheduled'] = len(pt._periodic_tasks)
        ctx = auth_ctx.MistralContext(user_id=None, project_id=None,
                                      auth_token=None, is_admin=True)
        pt.run_periodic_tasks(ctx, raise_on_error=True)
    except LoopWatchdog as e:
        out['watchdog'] = str(e)
    except Exception as e:
        out['exc'] = '%s: %s' % (type(e).__name__, str(e)[:160])
    finally:
        db_api.get_expired_executions = orig_e
        db_api.get_superfluous_executions = orig_s
        auth_ctx.set_ctx(None)
    out['iters'] = dict(cnt)
    return out


# ------------------------------------------------------------------ oracle
def oracle(ents, before, after, st, ev):
    """-> list of (kind, text)."""
    v = []
    gone = set(before) - set(after)
    for i in sorted(set(after) - set(before)):
        v.append(('INCOMPLETE-TREE', 'unexpected new row %s' % i))
    if ev['watchdog']:
        v.append(('NON-TERMINATION',
                  'batch loop of the %s phase exceeded the watchdog bound '
                  '(iterations %r)' % (ev['watchdog'], ev['iters'])))
    roots = [{'id': i, 'state': e['state'], 'age': e['age']}
             for i, e in ents.items() if e['kind'] == 'wf'
             and e['parent'] is None]
    gone_roots = {r['id'] for r in roots if r['id'] in gone}
    # sub-executions / tasks / actions follow their root, and only it
    for i in sorted(gone):
        e = ents[i]
        if e['root'] in gone_roots or i == e['root']:
            continue
        if e['kind'] == 'wf':
            v.append(('UNSAFE-DELETE',
                      'sub-execution deleted on its own: %s(state=%s, '
                      'age=%ds) while its root %s(state=%s) is kept'
                      % (i, e['state'], e['age'], e['root'],
                         ents[e['root']]['state'])))
        else:
            v.append(('INCOMPLETE-TREE',
                      '%s %s deleted while its root execution %s is kept'
                      % (e['kind'], i, e['root'])))
    for i in sorted(after):
        e = ents.get(i)
        if e is None:
            continue
        if e['root'] in gone_roots:
            v.append(('INCOMPLETE-TREE',
                      'orphan left behind: %s %s remains after its root '
                      'execution %s was deleted' % (e['kind'], i, e['root'])))
        elif after[i] != before[i]:
            v.append(('INCOMPLETE-TREE',
                      'kept %s %s was modified: %r -> %r'
                      % (e['kind'], i, before[i], after[i])))
        par = after[i][4]
        if par is not None and par not in after:
            v.append(('INCOMPLETE-TREE',
                      '%s %s refers to missing parent %s'
                      % (after[i][0], i, par)))
    v.extend(ref.verdicts(roots, st, gone_roots))
    if ev['exc']:
        v = [(k, t + ' [evaluation raised %s]' % ev['exc']) for k, t in v]
    # one entry per kind
    merged = collections.OrderedDict()
    for k, t in v:
        merged.setdefault(k, []).append(t)
    return [(k, '; '.join(ts[:4]) + (' (+%d more)' % (len(ts) - 4)
                                     if len(ts) > 4 else ''))
            for k, ts in merged.items()]


def message(kind, text, pop, st):
    return '%s: %s | population=%s settings=%s' % (kind, text, pop_id(pop),
                                                   st_id(st))


def run_case(pop, st, ents, before, snap):
    """Restore the population image, evaluate, judge."""
    env.raw_conn().deserialize(snap)
    apply_settings(st)
    n_wf = sum(1 for e in ents.values() if e['kind'] == 'wf')
    ev = evaluate(limit=2 * n_wf + 4)
    after = read_db()
    if ev['watchdog']:
        # a transaction was abandoned (rolled back by its context manager):
        # rebuild a clean session state; the next case restores its image
        env.reset(overrides=AUTH_ON)
    return ev, after, oracle(ents, before, after, st, ev)


def prepare(pop):
    env.reset(overrides=AUTH_ON)
    ents = populate(pop)
    before = read_db()
    check_population(ents, before)
    return ents, before, env.raw_conn().serialize()


# ------------------------------------------------------------------ jobs
def key64(s):
    return int.from_bytes(hashlib.blake2b(s.encode(),
                                          digest_size=8).digest(), 'big')


def run_job(job, deadline):
    fam, pop, sset = job
    ents, before, snap = prepare(pop)
    roots = [{'id': i, 'state': e['state'], 'age': e['age']}
             for i, e in ents.items()
             if e['kind'] == 'wf' and e['parent'] is None]
    n_sub = sum(1 for e in ents.values()
                if e['kind'] == 'wf' and e['parent'] is not None)
    res = {'keys': [], 'trivial': 0, 'hashes': {canon_hash(before)},
           'transitions': 0, 'counters': collections.Counter(), 'viol': [],
           'sample': None, 'validated': 0, 'audit_bad': []}
    C = res['counters']
    per_key = collections.Counter()
    pid = pop_id(pop)
    audit = None
    for st in settings_of(sset):
        ev, after, viols = run_case(pop, st, ents, before, snap)
        h = canon_hash(after)
        res['hashes'].add(h)
        res['transitions'] += 1
        cid = '%s/%s/%s' % (fam, pid, st_id(st))
        must, keep = ref.expectation(roots, st)
        age_on, cnt_on = ref.criteria(st)
        configured = age_on or cnt_on
        guarded_subs = n_sub if configured else 0
        nontrivial = bool(must or (configured and (keep or guarded_subs)))
        if nontrivial:
            res['keys'].append(key64(cid))
        else:
            res['trivial'] += 1
        n_gone_roots = sum(1 for r in roots if r['id'] not in after)
        n_gone_subs = sum(1 for i, e in ents.items() if e['kind'] == 'wf'
                          and e['parent'] is not None and i not in after)
        C['cases'] += 1
        C['cases_criteria_not_configured'] += 0 if (age_on or cnt_on) else 1
        C['cases_reference_requires_deletion'] += 1 if must else 0
        C['cases_reference_protects_finished_root'] += \
            1 if (configured and keep) else 0
        C['cases_reference_requires_deletion_and_protects'] += \
            1 if (must and keep) else 0
        C['cases_with_protected_eligible_looking_subexecutions'] += \
            1 if guarded_subs else 0
        C['cases_impl_deleted_something'] += 1 if n_gone_roots else 0
        C['roots_deleted'] += n_gone_roots
        C['subexecutions_deleted_with_root'] += n_gone_subs
        C['roots_required_deleted_by_reference'] += must
        its = ev['iters']['expired'] + ev['iters']['superfluous']
        C['batch_loop_iterations'] += its
        C['cases_with_multi_batch_loop'] += \
            1 if max(ev['iters'].values()) >= 3 else 0
        C['max_iterations_one_phase'] = max(C['max_iterations_one_phase'],
                                            max(ev['iters'].values()))
        C['cases_task_scheduled'] += 1 if ev['scheduled'] else 0
        if ev['exc']:
            C['cases_evaluation_raised'] += 1
            C['cases_evaluation_raised:' + ev['exc'][:60]] += 1
            if not viols:
                C['cases_evaluation_raised_but_outcome_allowed'] += 1
        if res['sample'] is None and n_gone_roots and keep:
            res['sample'] = {
                'case': cid, 'population': [list(r) for r in pop],
                'settings': st, 'deleted': sorted(
                    i for i in before if i not in after),
                'kept': sorted(after), 'batch_iterations': ev['iters']}
        if n_gone_roots:
            audit = (st, h)
        for kind, text in viols:
            C['violations:' + kind] += 1
            k = (kind, (ev['exc'] or '').split(':')[0], st['ot'])
            per_key[k] += 1
            if per_key[k] <= MAX_VIOL_PER_KEY:
                res['viol'].append({
                    'group': '%s|%s|ot=%s' % k,
                    'case_id': cid, 'message': message(kind, text, pop, st),
                    'doc': {'family': fam, 'pop': [list(r) for r in pop],
                            'settings': st, 'kind': kind}})
    # audit: re-execute one case of this job from scratch, same final state
    if audit is not None:
        st, h = audit
        ents2, before2, snap2 = prepare(pop)
        ev2, after2, _ = run_case(pop, st, ents2, before2, snap2)
        if canon_hash(after2) == h:
            res['validated'] += 1
        else:
            res['audit_bad'].append('%s/%s/%s' % (fam, pid, st_id(st)))
    return res


# ------------------------------------------------------------------ spaces
def pop_A(states, k, eq):
    """roots oldest first; k strictly older than T; optionally one at T."""
    pop = []
    for i, s in enumerate(states):
        if i < k:
            age = T + (k - i)
        else:
            j = i - k
            age = T - j if eq else T - (j + 1)
        pop.append((s, age, 'A', 'F'))
    return tuple(pop)


def jobs_A(n, alphabet=STATES, shifted=True, sset_shifted=None,
           sset_base=None):
    out = []
    for states in itertools.product(alphabet, repeat=n):
        for k in range(n + 1):
            for eq in ((False, True) if k < n else (False,)):
                base = (k == 0 and not eq)
                if base:
                    sset = sset_base or ALL
                elif shifted:
                    sset = sset_shifted or ((T,), MFS, BSS, IGNS)
                else:
                    continue
                out.append(('A', pop_A(states, k, eq), sset))
    return out


AGECLASS = {'o': T + 1, 'e': T, 'n': T - 1}


def jobs_T(n, sset=ALL):
    types = [(s, a) for s in STATES for a in 'oen']
    out = []
    for ms in itertools.combinations_with_replacement(types, n):
        classes = [a for _, a in ms]
        if len(set(classes)) == len(classes):
            continue            # all distinct ages: covered by family A
        pop = tuple(sorted(((s, AGECLASS[a], 'A', 'F') for s, a in ms),
                           key=lambda r: (-r[1], STATES.index(r[0]))))
        out.append(('T', pop, sset))
    return out


def jobs_B(n, alphabet=STATES, sset=ALL):
    types = [(s, AGECLASS[a], p, sh) for s in alphabet for a in 'on'
             for p in 'AB' for sh in SHAPES]

    def keyf(r):
        return (-r[1], STATES.index(r[0]), r[2], SHAPES.index(r[3]))

    def swap(pop):
        return tuple(sorted(((s, a, 'B' if p == 'A' else 'A', sh)
                             for s, a, p, sh in pop), key=keyf))
    out = []
    for ms in itertools.combinations_with_replacement(types, n):
        pop = tuple(sorted(ms, key=keyf))
        sw = swap(pop)
        if [keyf(r) for r in sw] < [keyf(r) for r in pop]:
            continue            # project-swap symmetric twin is enumerated
        out.append(('B', pop, sset))
    return out


def build_jobs(tier):
    """-> (jobs, bounds description)."""
    jobs, bounds = [], collections.OrderedDict()
    if tier == 'quick':
        for n in (0, 1, 2):
            jobs += jobs_A(n)
        jobs += jobs_A(3, sset_base=ALL,
                       sset_shifted=((T,), MFS, (0, 2), IGNS))
        bounds['A'] = ('n<=2 roots: all 6 states, all cuts, all 144 settings;'
                       ' n=3: all 6^3 state sequences x all 7 cuts, settings '
                       'with batch_size in {0,2} for shifted cuts (all 144 '
                       'for the base cut)')
        # several batches of surplus: more finished roots than
        # max_finished_executions + batch_size
        deep = ((None, T), (1, 2, 3), (1, 2, 3), ((), ('ERROR',)))
        jobs += jobs_A(4, alphabet=('SUCCESS', 'ERROR', 'RUNNING'),
                       sset_base=deep, sset_shifted=deep)
        jobs += jobs_A(5, alphabet=('SUCCESS', 'RUNNING'),
                       sset_base=deep, sset_shifted=deep)
        jobs += jobs_A(6, alphabet=('SUCCESS',), sset_base=deep,
                       sset_shifted=deep)
        bounds['A-deep'] = ('n=4 roots over {SUCCESS,ERROR,RUNNING}, n=5 '
                            'over {SUCCESS,RUNNING}, n=6 all SUCCESS: all '
                            'cuts, older_than in {unset,T}, '
                            'max_finished in {1,2,3}, batch_size in '
                            '{1,2,3}, ignored in {-, ERROR}')
        for n in (2,):
            jobs += jobs_T(n)
        bounds['T'] = 'n=2 roots with tied age class, all 144 settings'
        jobs += jobs_B(1)
        jobs += jobs_B(2, alphabet=('RUNNING', 'SUCCESS', 'ERROR'),
                       sset=(OTS, MFS, (0, 1), IGNS))
        bounds['B'] = ('n=1: all 72 types (36 after project symmetry), 144 '
                       'settings; n=2: states {RUNNING,SUCCESS,ERROR} x '
                       '{older,newer} x {A,B} x {F,N1,N2}, batch_size in '
                       '{0,1}')
    else:
        for n in (0, 1, 2, 3, 4):
            jobs += jobs_A(n)
        jobs += jobs_A(5, shifted=False,
                       sset_base=((None, 0), MFS, (1, 2), IGNS))
        bounds['A'] = ('n<=4 roots: all 6 states, all cuts, all 144 settings;'
                       ' n=5: all 6^5 state sequences, older_than in '
                       '{unset,0} (base cut only), batch_size in {1,2}')
        for n in (2, 3):
            jobs += jobs_T(n)
        bounds['T'] = 'n<=3 roots with a tied age class, all 144 settings'
        jobs += jobs_B(1)
        jobs += jobs_B(2)
        bounds['B'] = ('n<=2 roots: all 72 types (project-swap reduced), all '
                       '144 settings')
    # interleave the families uniformly (a deadline cut under load then
    # costs every family the same share instead of the last family whole)
    per = collections.defaultdict(list)
    for j in jobs:
        per[j[0]].append(j)
    keyed = []
    for fam in sorted(per):
        n = len(per[fam])
        for i, j in enumerate(per[fam]):
            keyed.append(((i + 0.5) / n, fam, i, j))
    keyed.sort(key=lambda x: x[:3])
    return [k[3] for k in keyed], bounds


# ------------------------------------------------------------------ main
def _selfcheck_config():
    CONF.clear_override('older_than', G)
    CONF.clear_override('max_finished_executions', G)
    assert CONF.execution_expiration_policy.older_than is None
    assert CONF.execution_expiration_policy.max_finished_executions == 0
    from mc import tree
    tree.assert_tree(ep)


def main(tier):
    _selfcheck_config()
    rep = common.SimpleReport(PROP, tier, level='model_checking')
    jobs, bounds = build_jobs(tier)
    n_jobs = len(jobs)
    jobs = common.rotate(jobs)
    budget = float(os.environ.get('C18_BUDGET_S',
                                  240 if tier == 'quick' else 840))
    deadline = time.time() + budget
    results = common.parallel_map(run_job, jobs, deadline=deadline)
    skipped, errors = 0, []
    fam_stats = collections.defaultdict(collections.Counter)
    samples = collections.defaultdict(list)
    viol_groups = collections.defaultdict(list)
    for job, r in zip(jobs, results):
        fam = job[0]
        if r is None or r.get('skipped'):
            skipped += 1
            continue
        if r.get('error'):
            errors.append({'job': '%s/%s' % (fam, pop_id(job[1])),
                           'error': r['error'][-1500:]})
            continue
        fam_stats[fam]['populations'] += 1
        fam_stats[fam]['cases'] += len(r['keys']) + r['trivial']
        for k in r['keys']:
            rep.case(k)
        for _ in range(r['trivial']):
            rep.case(None, nontrivial=False)
        for h in r['hashes']:
            rep.state(h)
        rep.transition(r['transitions'])
        rep.validated += r['validated']
        for k, v in r['counters'].items():
            if k == 'max_iterations_one_phase':
                rep.counters[k] = max(rep.counters[k], v)
            else:
                rep.counters[k] += v
        for b in r['audit_bad']:
            errors.append({'job': b, 'error': 'audit: re-execution from '
                           'scratch reached a different final state'})
        if r['sample'] is not None and len(samples[fam]) < 2:
            samples[fam].append(r['sample'])
        for v in r['viol']:
            viol_groups[v['group']].append(v)
    for fam in sorted(samples):
        for s in samples[fam]:
            rep.sample(s, limit=6)
    # report round-robin over violation groups (kind, exception class,
    # older_than), simplest population first inside a group, so that a
    # second kind of violation is never crowded out by many of the first
    for g in viol_groups.values():
        g.sort(key=lambda v: (len(v['doc']['pop']), v['case_id']))
    for tier_i in range(max([len(g) for g in viol_groups.values()] or [0])):
        for gk in sorted(viol_groups):
            g = viol_groups[gk]
            if tier_i < len(g):
                v = g[tier_i]
                rep.violation(v['case_id'], v['message'], v['doc'])
    rep.assumptions = [
        'one evaluation = ExecutionExpirationPolicy(CONF).run_periodic_tasks'
        '(admin ctx, raise_on_error=True) on a quiescent DB: no concurrent '
        'engine activity during an evaluation',
        'SQLite in-memory with foreign keys ON stands for the production '
        'DB: the ON DELETE CASCADE chain is executed by SQLite; the MySQL '
        'max-depth-15 fallback (delete_workflow_execution_recurse) is not '
        'reachable',
        'populations are created through the real DB API with explicit '
        'created_at/updated_at; updated_at is never NULL (an execution that '
        'was never updated is out of scope)',
        'reference reading: "older than" is strict (an execution exactly at '
        'the threshold is kept); max_finished_executions counts finished, '
        'non-ignored ROOT executions of all projects together; ties in '
        'updated_at may be broken either way',
        'older_than unset or 0 (below the documented minimum of 1) means '
        '"no age criterion"; max_finished_executions unset or 0 means "no '
        'count criterion"; with neither configured nothing may be deleted',
        'an evaluation that raises is reported only through its outcome '
        '(rows that should have been deleted and were not)',
        'auth_enable=True so that trees of projects A and B really carry '
        'different project_id values',
    ]
    rep.extra = {
        'bounds': bounds,
        'older_than_T_minutes': T,
        'settings_space': {'older_than': ['unset', 0, T],
                           'max_finished_executions': ['unset', 0, 1, 2],
                           'batch_size': list(BSS),
                           'ignored_states': [list(i) for i in IGNS]},
        'populations': {k: dict(v) for k, v in fam_stats.items()},
        'jobs': n_jobs, 'jobs_skipped_by_deadline': skipped,
        'harness_job_errors': errors[:10],
        'budget_s': budget,
    }
    exhaustive = (skipped == 0 and not errors)
    if errors:
        print('HARNESS-NOTE property=%s %d job errors (see evidence)'
              % (PROP, len(errors)))
    return rep.finish(
        rule='every (population, settings) pair of the bounded families A '
             '(distinct ages x states x threshold cut), T (tied ages), B '
             '(projects x nesting) is built in the real DB and evaluated '
             'once; a case is identified by family/population code/settings;'
             ' it is non-trivial iff the reference requires at least one '
             'deletion, or a criterion is configured and there is a finished'
             ' root or an eligible-looking sub-execution that must be kept; '
             'states = distinct canonical DB contents (forest of trees with '
             'state, project, age; ids abstracted) before/after an '
             'evaluation, transitions = evaluations executed',
        exhaustive=exhaustive)


def replay(doc):
    pop = tuple(tuple(r) for r in doc['pop'])
    st = doc['settings']
    ents, before, snap = prepare(pop)
    ev, after, viols = run_case(pop, st, ents, before, snap)
    want = doc.get('kind')
    hit = [(k, t) for k, t in viols if want is None or k == want]
    if hit:
        return True, '; '.join(message(k, t, pop, st) for k, t in hit)
    if viols:
        return False, 'other violation kinds only: %r' % (viols,)
    return False, 'no violation: deleted=%r' % sorted(
        i for i in before if i not in after)
