"""CLI: python -m checks.run CNN [--tier quick|thorough] [--replay file]"""
import argparse
import importlib
import os
import sys

ROOT = os.path.dirname(os.path.dirname(os.path.abspath(__file__)))
if ROOT not in sys.path:
    sys.path.insert(0, ROOT)


def main():
    ap = argparse.ArgumentParser()
    ap.add_argument('prop')
    ap.add_argument('--tier', default=os.environ.get('VERIF_TIER', 'quick'))
    ap.add_argument('--replay')
    ap.add_argument('--quiet', action='store_true')
    a = ap.parse_args()
    prop = a.prop.upper()
    if a.tier not in ('quick', 'thorough'):
        a.tier = 'quick'
    if a.replay:
        from checks import common
        sys.exit(common.run_replay(prop, a.replay, quiet=a.quiet))
    mod = importlib.import_module('checks.%s' % prop.lower())
    sys.exit(mod.main(a.tier))


if __name__ == '__main__':
    main()
