"""C13 - scheduled jobs run once, not early, survive crashes, only if
committed (SchedMC).

1-3 real DefaultScheduler instances (real dispatcher loop, job-store checker
loop and pool jobs as controlled activities over one DB) and the real
LegacyScheduler poll; client transactions that schedule jobs and commit or
roll back; optional crash of one instance between any two of its steps.
All interleavings of persist / in-memory push / dispatcher wake-up / capture
/ invoke / delete / store poll / sleep expiry are enumerated; the absolute
virtual clock is part of the state, runs end at a fixed horizon.
"""
import datetime
import json
import time

from checks import common
from mc import env
from mc.explore import Scenario

PROP = 'C13'
PICKUP = 2
CAP_TIMEOUT = 3


def target(name):
    """The scheduled function: records its invocation."""
    env.W.extra.setdefault('inv', []).append(
        (name, env.W.clock, getattr(env.cur_act(), 'owner', '?')))


class Rollback(Exception):
    pass


class SchedScenario(Scenario):
    hash_clock = True
    horizon_is_terminal = True

    def __init__(self, name, n_inst, jobs, crash=None, impl='default',
                 horizon=None, batch_size=2, rp=False, early_ticks=0):
        self.name = name
        self.rp = rp
        # the clock may move on by one second while instances are still
        # busy (a slow instance), at most this many times per execution
        self.early_ticks = early_ticks
        self.n_inst = n_inst
        self.jobs = jobs          # dicts: name, delay, key, by, commit, at
        self.crash = crash        # None or instance index that may crash
        self.impl = impl
        self.batch_size = batch_size
        mx = max([j['delay'] + j.get('at', 0) for j in jobs] + [0])
        self.horizon_clock = horizon or (mx + PICKUP + 2 * CAP_TIMEOUT + 4)
        self.horizon_steps = 400

    def spec(self):
        return ('checks.c13', 'SchedScenario', dict(
            name=self.name, n_inst=self.n_inst, jobs=self.jobs,
            crash=self.crash, impl=self.impl, horizon=self.horizon_clock,
            batch_size=self.batch_size, rp=self.rp,
            early_ticks=self.early_ticks))

    def describe(self):
        return {'name': self.name, 'instances': self.n_inst,
                'jobs': self.jobs, 'crash_of': self.crash, 'impl': self.impl,
                'horizon_s': self.horizon_clock,
                'pickup_job_after': PICKUP,
                'captured_job_timeout': CAP_TIMEOUT,
                'transactions_may_overlap_before_their_first_write': self.rp,
                'clock_ticks_while_instances_are_busy': self.early_ticks}

    def setup(self):
        ov = [('pickup_job_after', PICKUP, 'scheduler'),
              ('captured_job_timeout', CAP_TIMEOUT, 'scheduler'),
              ('fixed_delay', 1, 'scheduler'),
              ('random_delay', 0, 'scheduler'),
              ('batch_size', self.batch_size, 'scheduler'),
              ('in_memory_workers', 4, 'scheduler')]
        env.reset(overrides=ov, scheduler=self.impl, n_sched=self.n_inst)
        w = env.W
        w.rp = self.rp
        w.extra['inv'] = []
        w.extra['crashed'] = []
        w.extra['jobs'] = {}
        w.extra['early_ticks'] = 0
        from mistral.db.v2 import api as db_api
        from mistral.scheduler import base as sched_base
        for j in self.jobs:
            def client(j=j):
                inst = env.SCHEDULERS[j['by']]
                try:
                    with db_api.transaction():
                        inst.sched.schedule(sched_base.SchedulerJob(
                            run_after=j['delay'],
                            func_name='checks.c13.target',
                            func_args={'name': j['name']}, key=j['key']))
                        env.W.extra['jobs'][j['name']] = {
                            'execute_at': env.W.clock + j['delay'],
                            'commit': j['commit']}
                        if not j['commit']:
                            raise Rollback()
                except Rollback:
                    pass
            a = env.Activity('client', j['name'], client)
            a.owner = 'client'
            if j.get('at'):
                a.blocked_on = ('time', j['at'])
            env.W.acts.append(a)

    # -------------------------------------------------------------- faults
    def externals(self):
        out = []
        captured = None
        if self.early_ticks:
            # the *-slow scenarios look at what happens around a capture:
            # crash and early tick are offered while a row is captured
            from mc.wfscn import cmd_rows
            captured = cmd_rows("select count(*) from scheduled_jobs_v2 "
                                "where captured_at is not null") > 0
        if self.crash is not None and not env.W.extra['crashed'] and \
                captured is not False:
            d = env.SCHEDULERS[self.crash]

            def do():
                d.crash()
                env.W.extra['crashed'].append(d.name)
            c = env.Choice('X:crash:%s' % d.name, 'ext', do, 10 ** 9 + 1,
                           'crash of scheduler instance %s' % d.name)
            out.append(c)
        if captured and env.W.extra['early_ticks'] < self.early_ticks and \
                env.W.clock + 1 <= self.horizon_clock and \
                env.enabled_choices():
            t = env.W.clock + 1

            def tick():
                env.W.extra['early_ticks'] += 1
                env.set_clock(t)
            out.append(env.Choice('T%d' % t, 'ext', tick, 10 ** 9 + 2,
                                  'clock -> t=%d while instances are still '
                                  'busy' % t))
        return out

    def extra_state(self):
        w = env.W
        mem = []
        for d in env.SCHEDULERS:
            s = d.sched
            if hasattr(s, 'in_memory_jobs'):
                mem.append([d.name, d.crashed, sorted(
                    (jid, str(j.captured_at))
                    for jid, j in s.in_memory_jobs.items()),
                    len(s._heap)])
        return [sorted(w.extra['inv']), w.extra['crashed'], mem,
                sorted(w.extra['jobs'].items()), w.extra['early_ticks']]

    # -------------------------------------------------------------- oracles
    def check_step(self, pre, post, choice, ctx):
        v = []
        w = env.W
        for where, cls, is_m, text in ctx.new_exceptions:
            v.append('scheduler thread died with %s at %s: %s'
                     % (cls, where, text))
        seen = w.extra.setdefault('checked', 0)
        inv = w.extra['inv']
        for (name, t, who) in inv[seen:]:
            j = w.extra['jobs'].get(name)
            if j is None or not j['commit']:
                v.append('job %s whose transaction rolled back was invoked '
                         '(by %s at t=%d)' % (name, who, t))
                continue
            if t < j['execute_at']:
                v.append('job %s invoked at t=%d, before its delay elapsed '
                         '(execute_at t=%d) by %s'
                         % (name, t, j['execute_at'], who))
        w.extra['checked'] = len(inv)
        counts = {}
        for (name, t, who) in inv:
            counts[name] = counts.get(name, 0) + 1
        allowed = 1 + len(w.extra['crashed'])
        for name, n in counts.items():
            if n > allowed:
                v.append('job %s invoked %d times (crashes so far: %d)'
                         % (name, n, len(w.extra['crashed'])))
        # recapture only after the capture timeout
        tbl = 'scheduled_jobs_v2' if self.impl == 'default' \
            else 'delayed_calls_v2'
        if self.impl == 'default':
            pre_rows = {r['id']: r for r in pre[tbl]}
            for r in post[tbl]:
                p = pre_rows.get(r['id'])
                if p and p['captured_at'] and r['captured_at'] \
                        and p['captured_at'] != r['captured_at']:
                    c1 = _ts(p['captured_at'])
                    c2 = _ts(r['captured_at'])
                    if c2 - c1 < CAP_TIMEOUT:
                        v.append('job recaptured %ds after a capture, before '
                                 'captured_job_timeout=%d elapsed'
                                 % (c2 - c1, CAP_TIMEOUT))
        v.extend(self._probe(post))
        return v

    def _probe(self, snap):
        """has_scheduled_jobs(key, processing=False) vs the rows."""
        v = []
        keys = sorted(set(j['key'] for j in self.jobs if j['key']))
        if self.impl == 'default':
            rows = snap['scheduled_jobs_v2']

            def pending(k):
                return any(r['key'] == k and r['captured_at'] is None
                           for r in rows)
        else:
            rows = snap['delayed_calls_v2']

            def pending(k):
                return any(r['key'] == k and not r['processing']
                           for r in rows)
        from mistral.db.v2 import api as db_api
        for d in env.SCHEDULERS:
            if getattr(d, 'crashed', False):
                continue
            for k in keys:
                # asked inside a transaction, as the engine does (outside one
                # get_scheduled_jobs_count leaks a half-open session)
                with db_api.transaction(read_only=True):
                    got = d.sched.has_scheduled_jobs(key=k, processing=False)
                want = pending(k)
                if got != want:
                    v.append('has_scheduled_jobs(key=%s, processing=False) '
                             'on %s says %s but rows not being processed '
                             'with that key: %s [%s]'
                             % (k, d.name, got, want,
                                self._why(d, k, rows, got)))
        return v

    def _why(self, d, k, rows, got):
        if not got:
            return 'missed-pending-job'
        mem = getattr(d.sched, 'in_memory_jobs', {})
        byid = {r['id']: r for r in rows}
        kinds = set()
        for jid, j in mem.items():
            if j.key != k or j.captured_at is not None:
                continue
            r = byid.get(jid)
            if r is None:
                kinds.add('in-memory copy of a job that has no committed row')
            elif r['captured_at'] is not None:
                kinds.add('in-memory copy not yet aware the row was captured '
                          'by another instance')
        return '; '.join(sorted(kinds)) or 'unexplained'

    def check_terminal(self, snap, ctx):
        v = []
        w = env.W
        counts = {}
        for (name, t, who) in w.extra['inv']:
            counts[name] = counts.get(name, 0) + 1
        alive = [d for d in env.SCHEDULERS if not getattr(d, 'crashed', False)]
        for name, j in sorted(w.extra['jobs'].items()):
            n = counts.get(name, 0)
            if j['commit'] and n == 0 and alive:
                if self.impl == 'legacy' and w.extra['crashed']:
                    continue    # legacy has no capture timeout
                v.append('committed job %s was never invoked by t=%d '
                         '(execute_at t=%d, live instances: %s)'
                         % (name, w.clock, j['execute_at'],
                            [d.name for d in alive]))
            if j['commit'] and not w.extra['crashed'] and n != 1:
                v.append('job %s invoked %d times without any crash'
                         % (name, n))
        key = json.dumps([sorted(counts.items()), w.extra['crashed']])
        return key, v


def _ts(s):
    t = datetime.datetime.strptime(str(s)[:19], '%Y-%m-%d %H:%M:%S')
    return int((t - env.EPOCH).total_seconds())


def J(name, delay=0, key=None, by=0, commit=True, at=0):
    return dict(name=name, delay=delay, key=key, by=by, commit=commit, at=at)


def scenarios(tier):
    quick = tier == 'quick'
    S = []

    def add(name, n, jobs, crash=None, impl='default', bound=None, secs=40,
            rp=False, early_ticks=0):
        S.append((SchedScenario(name, n, jobs, crash=crash, impl=impl,
                                rp=rp, early_ticks=early_ticks),
                  bound, secs if quick else secs * 10, 1))

    # polls / captures of several instances overlapping inside their
    # transactions (a poll that has only selected so far is overtaken)
    for impl in ('default', 'legacy'):
        add(impl[0] + '2i-1j-overlap', 2, [J('a', 1, 'k')], impl=impl,
            rp=True, bound=2 if quick else None)
        add(impl[0] + '2i-2j-overlap', 2,
            [J('a', 0, 'k'), J('b', 1, 'k', by=1)], impl=impl, rp=True,
            bound=1 if quick else None)
    # the instance that scheduled the job dies: the two others find it in
    # the store, their polls (select + capture in one transaction) overlap
    add('d3i-1j-crash0-overlap', 3, [J('a', 0, 'k')], crash=0, rp=True,
        bound=2 if quick else None)
    add('d3i-1j-d1-crash0-overlap', 3, [J('a', 1, 'k')], crash=0, rp=True,
        bound=1 if quick else 3)
    add('d3i-1j-overlap', 3, [J('a', 0, 'k')], rp=True,
        bound=1 if quick else None)
    # ... and the clock moves on by a second while they are at it (the two
    # captures of a stale job then carry different timestamps)
    add('d3i-1j-crash0-overlap-slow', 3, [J('a', 0, 'k')], crash=0, rp=True,
        early_ticks=1, bound=3 if quick else None)
    add('d2i-1j-d1-slow', 2, [J('a', 1, 'k')], early_ticks=1,
        bound=2 if quick else None)

    for impl in ('default', 'legacy'):
        p = impl[0]
        add(p + '1i-1j-d0', 1, [J('a')], impl=impl)
        add(p + '1i-1j-d2', 1, [J('a', 2)], impl=impl)
        add(p + '1i-rollback', 1, [J('a', 1, commit=False)], impl=impl)
        add(p + '1i-2j-samekey', 1, [J('a', 0, 'k'), J('b', 1, 'k')],
            impl=impl)
        add(p + '1i-2j-late-then-soon', 1, [J('a', 2, 'k'), J('b', 0, 'q',
                                                               at=1)],
            impl=impl)
        add(p + '1i-2j-commit-rollback', 1,
            [J('a', 1, 'k'), J('b', 0, 'k', commit=False)], impl=impl)
        add(p + '2i-1j', 2, [J('a', 1, 'k')], impl=impl,
            bound=None if not quick else 3)
        add(p + '2i-2j', 2, [J('a', 0, 'k'), J('b', 1, 'k', by=1)], impl=impl,
            bound=2 if quick else None)
    add('d2i-1j-crash0', 2, [J('a', 0, 'k')], crash=0,
        bound=3 if quick else None)
    add('d2i-1j-d1-crash0', 2, [J('a', 1, 'k')], crash=0,
        bound=2 if quick else None)
    add('d2i-2j-crash0', 2, [J('a', 0, 'k'), J('b', 1, 'q')], crash=0,
        bound=2 if quick else None)
    add('d3i-1j-crash0', 3, [J('a', 0, 'k')], crash=0,
        bound=2 if quick else None)
    add('d3i-2j', 3, [J('a', 0, 'k'), J('b', 0, 'k', by=1)],
        bound=1 if quick else None)
    add('d1i-3j', 1, [J('a', 0, 'k'), J('b', 1, 'k'), J('c', 2, 'q')],
        bound=2 if quick else None)
    add('d2i-3j', 2, [J('a', 0, 'k'), J('b', 1, 'q', by=1),
                      J('c', 2, 'k', at=1)], bound=1 if quick else None)
    return S


def main(tier):
    rep = common.Report(PROP, tier)
    jobs = common.rotate(scenarios(tier))
    deadline = time.time() + (150 if tier == 'quick' else 1800)
    res = common.parallel_map(common.explore_job, jobs, deadline=deadline)
    rep.add_explore_results(jobs, res)
    rep.assumptions = [
        'virtual clock with 1 s resolution; time advances only when no '
        'activity is enabled (a scheduler never overruns the capture '
        'timeout unless it crashes), except in the *-slow scenarios where '
        'it may move on by one second once while instances are busy',
        'transactions and implicit sessions are atomic steps',
        'LegacyScheduler: crash recovery excluded (no capture timeout)',
    ]
    rep.extra = {'settings': {'pickup_job_after': PICKUP,
                              'captured_job_timeout': CAP_TIMEOUT,
                              'fixed_delay': 1}}
    return rep.finish(
        rule='scheduler instances x jobs (delay, key, committing instance, '
             'commit/rollback) x optional crash; DFS over all interleavings '
             'of the real scheduler loops and pool jobs; state = DB rows + '
             'in-memory heaps + suspended activities + invocation log + '
             'absolute virtual clock')
