"""C08 - task policies bound and shape execution as documented.

Engine explorer over one- and three-task programs with retry (count 0..2 as
literal, expression and task-default; delay 0..2; break-on / continue-on on
literals and on a published variable), wait-before / wait-after, timeout on
an asynchronous action whose genuine result is pending, fail-on and
pause-before + resume, x every outcome sequence of length count+1 x all
interleavings within the bound x early / late timer firings (virtual clock
moved to the next timer while other events are still in flight).
Oracles: attempts <= count+1; a delayed task does not continue before its
delay elapsed; every terminal outcome is one the reference model (retry,
continue/break, fail-on, timeout race) allows; pause-before leaves the
workflow PAUSED with no action of that task until resume."""
import itertools
import json
import time

from checks import common
from mc import env, wfgen, wfscn, cmdscn, refmodel

PROP = 'C08'


def install_timeout_monitor():
    """W.events gets ('timeout_job', task name, state before, state after)
    for every invocation of the timeout timer job."""
    from mistral.engine import policies as pol
    if getattr(pol, '_verif_timeout_monitor', False):
        return
    pol._verif_timeout_monitor = True
    orig = pol._fail_task_if_incomplete

    def st(task_ex_id):
        r = cmdscn.q("select name, state from task_executions_v2 "
                     "where id=?", (task_ex_id,))
        return r[0] if r else (None, None)

    def wrapped(task_ex_id, timeout):
        name, before = st(task_ex_id)
        try:
            return orig(task_ex_id, timeout)
        finally:
            env.W.events.append(('timeout_job', name, before,
                                 st(task_ex_id)[1]))
    pol._fail_task_if_incomplete = wrapped


class PolicyScenario(cmdscn.CmdScenario):
    def __init__(self, name, prog, clock_devs=0, **kw):
        super(PolicyScenario, self).__init__(name, prog, **kw)
        self.clock_devs = clock_devs

    def spec(self):
        return ('checks.c08', 'PolicyScenario', self.kwargs())

    def kwargs(self):
        d = super(PolicyScenario, self).kwargs()
        d['clock_devs'] = self.clock_devs
        return d

    def model(self):
        if self._model is None:
            self._model = refmodel.allowed_outcomes(
                self.prog, self.wf_input, self.results,
                timeouts_may_win=self.clock_devs > 0)
        return self._model

    def setup(self):
        install_timeout_monitor()
        super(PolicyScenario, self).setup()
        env.W.extra['clock_devs'] = 0
        env.W.extra['delayed'] = {}

    def extra_state(self):
        return [super(PolicyScenario, self).extra_state(),
                env.W.extra['clock_devs'],
                sorted((k, env.W.clock - v)
                       for k, v in env.W.extra['delayed'].items())]

    def externals(self):
        out = super(PolicyScenario, self).externals()
        w = env.W
        if w.extra['clock_devs'] < self.clock_devs:
            t = env.next_clock_event()
            if t is not None and (w.msgs or any(a.enabled()
                                                for a in w.acts)):
                def do(t=t):
                    w.extra['clock_devs'] += 1
                    env.set_clock(t)
                out.append(env.Choice(
                    'XT%d' % t, 'ext', do, 10 ** 9 + 9,
                    'timer fires while other events are in flight (clock -> '
                    't=%d)' % t, cost=0, tag='clock'))
        return out

    def _inp(self, k):
        d = dict(self.prog.get('input') or {})
        d.update(self.wf_input or {})
        return d.get(k, 0)

    def _delay_of(self, tname, info):
        t = self.prog['tasks'].get(tname, {})
        td = self.prog.get('task-defaults') or {}
        info = info or ''
        if 'wait-before' in info:
            return (t.get('wait-before') or td.get('wait-before') or 0)
        if 'wait-after' in info:
            return (t.get('wait-after') or td.get('wait-after') or 0)
        if 'retry' in info:
            r = t.get('retry') or td.get('retry') or {}
            d = r.get('delay', 0)
            return d if isinstance(d, int) else self._inp('d')
        return 0

    def check_step(self, pre, post, choice, ctx):
        v = []
        w = env.W
        for where, cls, is_mistral, text in ctx.new_exceptions:
            if not is_mistral and 'already completed' not in text:
                v.append('engine entry point failed with undeclared error '
                         '%s at %s: %s' % (cls, where, text))
        # a timeout job that finds its task incomplete fails it, whatever
        # state the task is parked in (monitor installed in setup)
        ev = w.events
        for e in ev[getattr(w, '_c08_seen', 0):]:
            if e[0] == 'timeout_job' and e[2] == e[3] and e[2] not in (
                    'SUCCESS', 'ERROR', 'CANCELLED', 'SKIPPED', None):
                v.append('the timeout of task %s expired (its timer job '
                         'ran) but the task was left %s' % (e[1], e[2]))
        w._c08_seen = len(ev)
        pre_t = {t['id']: t for t in pre['task_executions_v2']}
        for t in post['task_executions_v2']:
            p = pre_t.get(t['id'])
            was = p['state'] if p else None
            if t['state'] == 'DELAYED' and was != 'DELAYED':
                w.extra['delayed'][t['id']] = w.clock
                d = self._delay_of(t['name'], t['state_info'])
                # the job that will wake the task up is not due earlier
                meth = '_complete_task' if 'wait-after' in (
                    t['state_info'] or '') else '_continue_task'
                due = [c for c in post['delayed_calls_v2']
                       if t['id'] in (c['method_arguments'] or '')
                       and c['target_method_name'].endswith(meth)
                       and not c['processing']]
                due = [(c, c['execution_time']) for c in due]
                due += [(c, c['execute_at'])
                        for c in post.get('scheduled_jobs_v2', [])
                        if t['id'] in (c['func_args'] or '')
                        and (c['func_name'] or '').endswith(meth)
                        and c['captured_at'] is None]
                for c, when in due:
                    et = env._rel_time(when)
                    if int(et[1:]) < d:
                        v.append('task %s delayed by %ds (%s) but its '
                                 'wake-up job is due after %ss'
                                 % (t['name'], d, t['state_info'], et[1:]))
            if was == 'DELAYED' and t['state'] in ('ERROR', 'SUCCESS') \
                    and 'retry' in (p['state_info'] or ''):
                # a timeout or the late result of the previous attempt
                # completes the task while its retry job is still pending
                h = w.extra.setdefault('hist', [])
                tag = 'task-completed-while-it-waited-for-its-retry'
                if tag not in h:
                    h.append(tag)
            if was == 'DELAYED' and t['state'] in ('ERROR', 'SUCCESS') \
                    and 'wait-before' in (p['state_info'] or ''):
                # the timeout fails the task while it still waits for its
                # start: the pending _continue_task will resurrect it
                h = w.extra.setdefault('hist', [])
                tag = 'task-completed-while-it-waited-before-its-start'
                if tag not in h:
                    h.append(tag)
            if was == 'DELAYED' and t['state'] != 'DELAYED':
                since = w.extra['delayed'].pop(t['id'], None)
                d = self._delay_of(t['name'], p['state_info'])
                wa = 'wait-after' in (p['state_info'] or '')
                resumed = (t['state'] == 'RUNNING' and not wa) or (
                    wa and t['state'] in ('SUCCESS', 'ERROR') and
                    'timed out' not in (t['state_info'] or ''))
                if since is not None and w.clock - since < d and resumed:
                    v.append('task %s continued %ds after being delayed, '
                             'before its delay of %ds elapsed (%s)'
                             % (t['name'], w.clock - since, d,
                                p['state_info']))
            # pause-before: no action of that task while PAUSED
        # attempts
        for name, t in self.prog['tasks'].items():
            key = t.get('key', name)
            r = t.get('retry') or (self.prog.get('task-defaults')
                                   or {}).get('retry') or {}
            cnt = r.get('count', 0)
            if not isinstance(cnt, int):
                cnt = self._inp('k')
            n = w.runs.get(key, 0)
            reruns = sum(1 for c in w.extra.get('cmds', [])
                         if c[0].startswith('rerun'))
            if n > (cnt + 1) * (1 + reruns) and not t.get('with-items'):
                v.append('task %s made %d attempts with retry count %d'
                         % (name, n, cnt))
        pb = [n for n, t in self.prog['tasks'].items()
              if t.get('pause-before')]
        if pb:
            ws = {x['id']: x for x in post['workflow_executions_v2']}
            resumed = any(c[0] == 'resume'
                          for c in w.extra.get('cmds', []))
            tids = {t['id']: t for t in post['task_executions_v2']}
            for a in post['action_executions_v2']:
                t = tids.get(a['task_execution_id'])
                if t and t['name'] in pb and not resumed:
                    v.append('action of task %s (pause-before) started '
                             'before the workflow was resumed' % t['name'])
        return v

    def check_terminal(self, snap, ctx):
        paused = any(x['state'] == 'PAUSED'
                     for x in snap['workflow_executions_v2'])
        if paused:
            key = json.dumps(wfscn.outcome_of(snap, with_ctx=False),
                             sort_keys=True, default=str)
            v = []
            pb = [n for n, t in self.prog['tasks'].items()
                  if t.get('pause-before')]
            if not pb:
                v.append('run ended PAUSED without a pause-before task')
            return key, v
        return super(PolicyScenario, self).check_terminal(snap, ctx)


def programs(tier):
    T, direct = wfgen.T, wfgen.direct
    quick = tier == 'quick'
    P = []        # (name, prog, results list, extra kwargs)

    def outcomes(n):
        return [''.join(c) for c in itertools.product('SE', repeat=n)]

    for k in (0, 1, 2):
        for delay in ((0, 1) if quick else (0, 1, 2)):
            prog = direct({'a': T(retry={'count': k, 'delay': delay},
                                  **{'on-success': ['b'],
                                     'on-error': ['c']}),
                           'b': T(), 'c': T()})
            for seq in outcomes(k + 1):
                P.append(('retry_k%d_d%d/%s' % (k, delay, seq), prog,
                          {'a': list(seq), 'b': ['S'], 'c': ['S']}, {}))
    # count / delay as expressions and through task-defaults
    prog = direct({'a': T(retry={'count': ['var', 'k'],
                                 'delay': ['var', 'd']})},
                  input={'k': 1, 'd': 1})
    for seq in outcomes(2):
        P.append(('retry_expr/%s' % seq, prog, {'a': list(seq)}, {}))
    prog = direct({'a': T(**{'on-success': ['b']}), 'b': T()},
                  **{'task-defaults': {'retry': {'count': 1, 'delay': 0}}})
    for seq in ('ES', 'EE', 'S'):
        P.append(('retry_defaults/%s' % seq, prog,
                  {'a': list(seq), 'b': ['E', 'S']}, {}))
    # continue-on / break-on
    for cont in (['true'], ['false'], ['eq', 'v', 1]):
        prog = direct({'a': T(retry={'count': 2, 'delay': 0,
                                     'continue-on': cont},
                              publish={'v': ['lit', 1]})},
                      input={'v': 0})
        for seq in ('SSS', 'SES', 'ESS', 'EEE'):
            P.append(('continue_on_%s/%s' % ('_'.join(map(str, cont)), seq),
                      prog, {'a': list(seq)}, {}))
    for brk in (['true'], ['false'], ['eq', 'v', 0]):
        prog = direct({'a': T(retry={'count': 2, 'delay': 0,
                                     'break-on': brk})}, input={'v': 0})
        for seq in ('EES', 'ESS', 'EEE'):
            P.append(('break_on_%s/%s' % ('_'.join(map(str, brk)), seq),
                      prog, {'a': list(seq)}, {}))
    # waits
    for wb, wa in ((1, 0), (0, 1), (1, 1)):
        prog = direct({'a': T(**{'wait-before': wb, 'wait-after': wa,
                                 'on-success': ['b'], 'on-error': ['b']}),
                       'b': T()})
        for seq in ('S', 'E'):
            P.append(('wait_b%d_a%d/%s' % (wb, wa, seq), prog,
                      {'a': [seq], 'b': ['S']}, {'clock_devs': 1}))
    prog = direct({'a': T(**{'wait-after': 1, 'on-success': ['b', 'c']}),
                   'b': T(), 'c': T(**{'wait-before': 1})})
    P.append(('wait_fork/SSS', prog, {'a': ['S'], 'b': ['S'], 'c': ['S']},
              {'clock_devs': 1}))
    # timeout racing the genuine (asynchronous) result, and a retry
    for to in (1, 2):
        prog = direct({'a': T(action='async', timeout=to,
                              **{'on-success': ['b'], 'on-error': ['c']}),
                       'b': T(), 'c': T()})
        for seq in ('S', 'E', 'N'):
            P.append(('timeout%d/%s' % (to, seq), prog,
                      {'a': [seq], 'b': ['S'], 'c': ['S']},
                      {'clock_devs': 2}))
    prog = direct({'a': T(action='async', timeout=1,
                          retry={'count': 1, 'delay': 1})})
    for seq in ('NS', 'ES'):
        P.append(('timeout_retry/%s' % seq, prog, {'a': list(seq)},
                  {'clock_devs': 2}))
    # fail-on
    for fo in (['true'], ['false'], ['eq', 'v', 1]):
        prog = direct({'a': T(publish={'v': ['lit', 1]},
                              **{'fail-on': fo, 'on-error': ['b']}),
                       'b': T()}, input={'v': 0})
        for seq in ('S', 'E'):
            P.append(('fail_on_%s/%s' % ('_'.join(map(str, fo)), seq), prog,
                      {'a': [seq], 'b': ['S']}, {}))
    # task kinds x policies: the same policies around a with-items task
    # and around a sub-workflow task (every attempt re-runs all items / a
    # new child)
    leaf = direct({'s1': T(key='s1')}, output={'o': ['lit', 1]})
    pols = [
        ('retry1', {'retry': {'count': 1, 'delay': 0}}, 0),
        ('retry1_delay', {'retry': {'count': 1, 'delay': 1}}, 1),
        ('retry_cont', {'retry': {'count': 1, 'delay': 0,
                                  'continue-on': ['true']}}, 0),
        ('retry_break', {'retry': {'count': 2, 'delay': 0,
                                   'break-on': ['true']}}, 0),
        ('wait_before', {'wait-before': 1}, 1),
        ('wait_after', {'wait-after': 1}, 1),
        ('fail_on', {'fail-on': ['true']}, 0),
    ]
    for pname, pol, devs in pols:
        kw = dict(pol)
        kw.update({'on-success': ['b'], 'on-error': ['c']})
        a = dict(kw)
        a['with-items'] = 'i in <% $.xs %>'
        prog = direct({'a': a, 'b': T(), 'c': T()},
                      input={'xs': ['i0', 'i1']})
        for tag, r0, r1 in (('SS', ['S'], ['S']), ('ES.S', ['E', 'S'], ['S']),
                            ('EE.S', ['E', 'E'], ['S'])):
            if quick and tag == 'EE.S' and 'retry' not in pname:
                continue
            P.append(('items_%s/%s' % (pname, tag), prog,
                      {'i0': r0, 'i1': r1, 'b': ['S'], 'c': ['S']},
                      {'clock_devs': devs}))
        a = dict(kw)
        a['workflow'] = 'sub'
        prog = direct({'a': a, 'b': T(), 'c': T()}, subs={'sub': leaf})
        for tag, r in (('S', ['S']), ('ES', ['E', 'S']), ('EE', ['E', 'E'])):
            if quick and tag == 'EE' and 'retry' not in pname:
                continue
            P.append(('sub_%s/%s' % (pname, tag), prog,
                      {'s1': r, 'b': ['S'], 'c': ['S']},
                      {'clock_devs': devs, 'compare_ctx': False}))
    # every pair of policies on one task (a policy that moves the task out
    # of RUNNING must not make the engine forget the others)
    import itertools as _it
    POL = {
        'wb': {'wait-before': 1}, 'wa': {'wait-after': 1},
        'to': {'timeout': 2}, 'rt': {'retry': {'count': 1, 'delay': 1}},
        'fo': {'fail-on': ['eq', 'v', 1]}, 'pb': {'pause-before': True},
    }
    for p1, p2 in _it.combinations(sorted(POL), 2):
        kw = {}
        kw.update(POL[p1])
        kw.update(POL[p2])
        kw.update({'on-success': ['b'], 'on-error': ['c']})
        uses_to = 'to' in (p1, p2)
        if uses_to:
            kw['action'] = 'async'
        prog = direct({'a': T(**kw), 'b': T(), 'c': T()}, input={'v': 0})
        extra = {'clock_devs': 1 if (uses_to or 'wb' in (p1, p2) or
                                     'wa' in (p1, p2)) else 0}
        if 'pb' in (p1, p2):
            extra.update({'menu': ['resume'], 'max_cmds': 1})
        outs = [('S', ['S']), ('E', ['E'])]
        if 'rt' in (p1, p2):
            outs = [('ES', ['E', 'S']), ('EE', ['E', 'E'])]
        if uses_to and 'rt' not in (p1, p2):
            outs.append(('N', ['N']))
        if uses_to and 'rt' in (p1, p2):
            # (the timeout covers the first attempt only: a later attempt
            # that never answers is outside what the policy defines)
            outs.append(('NS', ['N', 'S']))
        for tag, seq in outs:
            if quick and tag in ('E', 'EE') and not uses_to:
                continue
            P.append(('pair_%s_%s/%s' % (p1, p2, tag), prog,
                      {'a': seq, 'b': ['S'], 'c': ['S']}, dict(extra)))
    # pause-before, resumed by the operator
    prog = direct({'a': T(**{'on-success': ['b']}),
                   'b': T(**{'pause-before': True, 'on-success': ['c']}),
                   'c': T()})
    P.append(('pause_before/SSS', prog, {'a': ['S'], 'b': ['S'], 'c': ['S']},
              {'menu': ['resume'], 'max_cmds': 1}))
    prog = direct({'a': T(**{'pause-before': True, 'wait-before': 1})})
    P.append(('pause_before_wait/S', prog, {'a': ['S']},
              {'menu': ['resume'], 'max_cmds': 1, 'clock_devs': 1}))
    return P


def scenarios(tier):
    quick = tier == 'quick'
    jobs = []
    for name, prog, res, extra in programs(tier):
        kw = dict(extra)
        scn = PolicyScenario(name, prog, results=res, **kw)
        jobs.append((scn, 1 if quick else None, 40 if quick else 900, 1))
        # the same scenario over the real DefaultScheduler (in-memory
        # dispatcher + pool; its job-store poll is C13's subject)
        jobs.append((common.variant(scn, '/dm', scheduler='default_mem'),
                     1 if quick else 2, 40 if quick else 900, 1))
        if name.startswith(('timeout', 'wait_b1_a0/S', 'retry_k1_d1/ES',
                            'items_wait_after/SS', 'sub_retry1/ES')):
            # timer job and result / next attempt overlapping inside their
            # transactions
            jobs.append((common.variant(scn, '/overlap', rp=True),
                         1 if quick else 2, 40 if quick else 900, 1))
    return jobs


def main(tier):
    rep = common.Report(PROP, tier)
    jobs = common.rotate(scenarios(tier))
    deadline = time.time() + (170 if tier == 'quick' else 1500)
    res = common.parallel_map(common.explore_job, jobs, deadline=deadline)
    rep.add_explore_results(jobs, res)
    rep.assumptions = [
        'virtual clock, 1 s resolution; a timer "fires early" = the clock '
        'is moved to the next due instant while other events are in flight '
        '(<= 2 such deviations per run)',
        'transactions are atomic steps; every scenario once over the legacy scheduler and once over the DefaultScheduler (dispatcher + pool, no store poll)',
    ]
    return rep.finish(
        rule='policy parameter values x per-attempt outcome sequences x '
             'interleavings within the bound x timer positions; step '
             'oracles (attempt count, delays respected, pause-before) and '
             'terminal oracle (reference model with retry / continue-on / '
             'break-on / fail-on / timeout race)')
