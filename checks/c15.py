"""C15 - tenant isolation: private data is invisible, others cannot modify
yours.

OpMC: from the empty DB, every setup (resource type x scope x name collision
x share status) is built by real calls; from that state every operation of
the catalogue is executed by every actor on a restored copy of the state,
and the rows it returned, the rows it changed and the rows it created are
compared with the reference model in mc/c15_model.py (visible = own | public
| accepted share; mutable = own | admin; new rows owned by the caller).

Levels: db (every tenant-facing db_api function), rest (the v2 routes through
the real pecan app, hooks and default policy), expr (expression functions
through the real evaluators), engine (workflows run by the real engine: the
contexts expression evaluation gets, and use of foreign definitions by
name).  Depth 2: after every state-changing db operation all reads are
repeated by all actors on the new state.
"""
from mc import tree  # noqa: F401  (tree under test first on sys.path)

import collections
import os
import time

from checks import common

PROP = 'C15'
AUDIT_PER_SETUP = {'quick': 4, 'thorough': 12}


def _mods():
    from mc import env  # noqa: F401
    from mc import c15_model as M, c15_world as W, c15_rest as R, \
        c15_expr as E
    return M, W, R, E


# ------------------------------------------------------------------ worker
class Acc(object):
    def __init__(self):
        self.keys = []
        self.counters = collections.Counter()
        self.states = set()
        self.transitions = 0
        self.breaches = []
        self.reach = set()
        self.samples = []
        self.unexpected = []
        self.validated = 0
        self.audit_bad = []

    def pack(self):
        self.__dict__.pop('_t', None)
        return self.__dict__


def _rel(M, s, caller):
    row = s.pre[s.table].get(s.ids['A'])
    if row is None:
        return 'gone'
    return M.relation(s.pre, s.table, row, caller)


def _record(acc, M, level, s, op, who, caller, obs, br, first=None):
    cid = '%s/%s/%s/as=%s' % (level, s.key, op.id, who)
    acc.keys.append(cid)
    now = time.time()
    acc.counters['_cpu_s.' + level] += now - acc.__dict__.get('_t', now)
    acc.__dict__['_t'] = now
    acc.transitions += 1
    acc.states.add(obs['post_hash'])
    c = acc.counters
    c[level + '.cases'] += 1
    rel = _rel(M, s, caller) if hasattr(s, 'table') else who
    reading = getattr(op, 'mode', None) is not None
    if reading:
        if obs.get('expect_hidden'):
            c[level + '.read.target_invisible'] += 1
            if not set(obs['ids']) & set(obs.get('req_ids', ())):
                c[level + '.read.target_invisible.refused'] += 1
        elif obs.get('expect_visible'):
            c[level + '.read.target_visible'] += 1
            if obs['any'] and not obs['exc']:
                c[level + '.read.target_visible.served'] += 1
    else:
        k = '%s.write.by_%s.%s' % (level, rel.split('-')[0],
                                   'db_changed' if obs['changed']
                                   else 'db_unchanged')
        c[k] += 1
    if obs['exc']:
        e = obs['exc']
        c['%s.outcome.%s' % (level, e)] += 1
        if e.startswith('OTHER') and 'DBDuplicateEntry' not in e \
                and len(acc.unexpected) < 5:
            acc.unexpected.append({'case': cid, 'exc': e,
                                   'err': obs.get('err')})
        if e.startswith('HTTP5') and len(acc.unexpected) < 5:
            acc.unexpected.append({'case': cid, 'exc': e,
                                   'err': (obs.get('err') or '')[:160]})
    else:
        c[level + '.outcome.ok'] += 1
    for b, d in br:
        acc.breaches.append({
            'group': '%s/%s/%s/%s' % (level, s.typ, op.fn, b),
            'case': cid, 'detail': d, 'breach': b, 'level': level,
            'fn': op.fn, 'synthetic': bool(getattr(op, 'synthetic', False)),
            'rank': [bool(first), s.collision != 'none', s.share != 'none',
                     who],
            'doc': {'level': level, 'setup': s.spec(), 'first': first,
                    'op': op.id, 'who': who, 'breach': b}})
    if level == 'rest' and who != 'ADM' and obs.get('status') != 403:
        acc.reach.update(obs.get('db_calls', ()))
    return cid


def _sig(obs):
    return (obs['exc'], sorted(obs['ids']), obs['post_hash'],
            obs.get('status'))


def _setup_job(spec, tier, depth2, part):
    M, W, R, E = _mods()
    acc = Acc()
    t0 = time.time()
    s = W.Setup(*spec).build()
    acc.states.add(M.state_hash(s.pre))
    acc.transitions += 1 + (s.collision != 'none') + \
        (s.share != 'none') + (s.share not in ('none', 'pending'))
    actors = W.actors_of(s)
    done = []
    changing = []
    seen_states = set()
    dbops = W.db_ops(s) if part == 'db' else []
    for op in dbops:
        for who in actors:
            obs, br = W.run_db_op(s, op, who)
            _record(acc, M, 'db', s, op, who, W.CALLERS[who], obs, br)
            done.append(('db', op, who, _sig(obs)))
            if obs['changed'] and obs['post_hash'] not in seen_states:
                seen_states.add(obs['post_hash'])
                changing.append((op, who))
    for op in (R.rest_ops(s) if part == 'rest' else []):
        for who in actors:
            obs, br = R.run_rest_op(s, op, who)
            _record(acc, M, 'rest', s, op, who, W.CALLERS[who], obs, br)
            done.append(('rest', op, who, _sig(obs)))
    eops = E.expr_ops(s) if s.typ in ('wf_ex', 'task_ex') and \
        part == 'db' else []
    for op in eops:
        for who in sorted(E.EXPR_CTX):
            obs, br = E.run_expr_op(s, op, who)
            _record(acc, M, 'expr', s, op, who,
                    W.CALLERS[E.EXPR_CALLER[who]], obs, br)
            done.append(('expr', op, who, _sig(obs)))
    if len(acc.samples) < 1 and done:
        lv, op, who, sg = done[len(done) // 2]
        acc.samples.append({'setup': s.key, 'level': lv, 'operation': op.id,
                            'as': who, 'outcome': sg[0] or 'ok',
                            'rows_returned': sg[1]})
    # depth 2: every distinct state reached by a db operation, all reads
    if depth2:
        # quick: all reads on the new state; thorough: the whole alphabet
        reads = dbops if tier == 'thorough' else [o for o in dbops if o.mode]
        for op1, who1 in changing:
            W.run_db_op(s, op1, who1)
            first = {'op': op1.id, 'who': who1}
            d = W.Derived(s, '%s@%s' % (op1.id, who1))
            acc.counters['db2.states'] += 1
            for op in reads:
                for who in actors:
                    obs, br = W.run_db_op(d, op, who)
                    _record(acc, M, 'db2', d, op, who, W.CALLERS[who], obs,
                            br, first=first)
            for op in eops:
                for who in ('A', 'B'):
                    obs, br = E.run_expr_op(d, op, who)
                    _record(acc, M, 'expr2', d, op, who, W.CALLERS[who],
                            obs, br, first=first)
            if tier == 'thorough':
                for op in [o for o in R.rest_ops(s) if o.mode]:
                    for who in actors:
                        obs, br = R.run_rest_op(d, op, who)
                        _record(acc, M, 'rest2', d, op, who,
                                W.CALLERS[who], obs, br, first=first)
    # audit: rebuild from the empty DB, same observations
    k = AUDIT_PER_SETUP[tier]
    if k and done:
        s2 = W.Setup(*spec).build()
        step = max(1, len(done) // k)
        for lv, op, who, sg in done[::step][:k]:
            ops2 = {'db': W.db_ops, 'rest': R.rest_ops,
                    'expr': E.expr_ops}[lv](s2)
            op2 = [o for o in ops2 if o.id == op.id][0]
            run = {'db': W.run_db_op, 'rest': R.run_rest_op,
                   'expr': E.run_expr_op}[lv]
            obs2, _ = run(s2, op2, who)
            if _sig(obs2) == sg:
                acc.validated += 1
            else:
                acc.audit_bad.append({'setup': s.key, 'op': op.id,
                                      'as': who})
    acc.counters['_job_seconds_max'] = int(time.time() - t0)
    return acc.pack()


def _engine_job(kind, specs):
    M, W, R, E = _mods()
    acc = Acc()

    class S(object):
        collision = share = 'none'

    for sp in specs:
        if kind == 'engine':
            case = E.EngineCase(*sp)
            obs, br = E.run_engine_case(case)
            typ = 'expression'
            acc.counters['engine.clause_evaluated'] += bool(
                obs['evaluated'])
            if obs['orphans']:
                acc.counters['engine.runs_leaving_rows_without_project'] \
                    += 1
        else:
            case = E.UseCase(*sp)
            obs, br = E.run_use_case(case)
            typ = case.kind
            acc.counters['use.%s.%s.%s' % (
                'foreign' if case.who not in ('A',) else 'own', case.scope
                if case.share == 'none' else 'share-' + case.share,
                obs['state'])] += 1
        s = S()
        s.typ, s.key = typ, kind
        s.spec = lambda sp=sp: list(sp)
        n0 = len(acc.breaches)
        _record(acc, M, kind, s, case, 'B' if kind == 'engine' else case.who,
                None, obs, br)
        for b in acc.breaches[n0:]:
            b['doc'] = {'level': kind, 'case': list(sp),
                        'breach': b['breach']}
        if not acc.samples:
            acc.samples.append({'engine_case': case.id,
                                'steps': obs['steps'],
                                'breaches': [x[0] for x in br]})
    return acc.pack()


def _job(job, deadline):
    if job[0] == 'setup':
        return _setup_job(job[1], job[2], job[3], job[4])
    return _engine_job(job[0], job[1])


# ------------------------------------------------------------------ main
def _jobs(tier):
    M, W, R, E = _mods()
    jobs = []
    for s in W.setups(tier):
        depth2 = tier == 'thorough' or s.collision == 'none'
        jobs.append(('setup', s.spec(), tier, depth2, 'db'))
        jobs.append(('setup', s.spec(), tier, False, 'rest'))
    ec = [c.spec() for c in E.engine_cases()]
    for i in range(0, len(ec), 5):
        jobs.append(('engine', ec[i:i + 5]))
    uc = [c.spec() for c in E.use_cases()]
    for i in range(0, len(uc), 7):
        jobs.append(('use', uc[i:i + 7]))
    # longest first (REST-heavy workflow setups), order rotated by the seed
    head = [j for j in jobs if j[0] == 'setup' and j[1][0] == 'workflow']
    rest = [j for j in jobs if j not in head]
    return common.rotate(head) + common.rotate(rest)


def main(tier):
    M, W, R, E = _mods()
    rep = common.SimpleReport(PROP, tier, level='model_checking')
    missing, stale, n_cov, n_excl = W.catalogue_gaps()
    # the whole space costs about half a minute: the quick tier explores
    # what the thorough tier explores
    jobs = _jobs('thorough')
    deadline = time.time() + (400 if tier == 'quick' else 1500)
    results = common.parallel_map(_job, jobs, deadline=deadline)

    harness = []
    if missing or stale:
        harness.append({'why': 'db_api catalogue out of date',
                        'unclassified': missing, 'stale': stale})
    counters = collections.Counter()
    breaches, reach, unexpected = [], set(), []
    seen_unexpected = set()
    timing = collections.Counter()
    for job, r in zip(jobs, results):
        if r is None or r.get('skipped'):
            harness.append({'why': 'job not run before the deadline',
                            'job': str(job[:2])[:120]})
            continue
        if r.get('error'):
            harness.append({'why': 'job failed', 'job': str(job[:2])[:120],
                            'error': r['error'][-1500:]})
            continue
        for k in r['keys']:
            rep.case(k)
        for h in r['states']:
            rep.state(h)
        rep.transition(r['transitions'])
        jmax = r['counters'].pop('_job_seconds_max', 0)
        counters['_job_seconds_max'] = max(counters['_job_seconds_max'],
                                           jmax)
        for k in [k for k in r['counters'] if k.startswith('_cpu_s.')]:
            timing[k[7:]] += r['counters'].pop(k)
        counters.update(r['counters'])
        breaches.extend(r['breaches'])
        reach.update(r['reach'])
        for u in r['unexpected']:
            k = (u['exc'], (u.get('err') or '')[:50])
            if k not in seen_unexpected:
                seen_unexpected.add(k)
                unexpected.append(u)
        rep.validated += r['validated']
        for b in r['audit_bad']:
            harness.append(dict(b, why='audit: rebuilt setup gave another '
                                       'observation'))
        for smp in r['samples']:
            rep.sample(smp, limit=6)

    # ---- group breaches per call site x kind of breach
    groups = collections.OrderedDict()
    for b in sorted(breaches, key=lambda b: (b['group'], b['synthetic'],
                                             b['rank'], b['case'])):
        groups.setdefault(b['group'], []).append(b)
    informational = []
    n_viol_cases = 0
    for g, bs in groups.items():
        first = bs[0]
        lvl = first['level']
        tenant_facing = lvl in ('rest', 'rest2', 'expr', 'expr2', 'engine',
                                'use')
        real = [b for b in bs if not b['synthetic']]
        if not tenant_facing:
            # db level: only functions reached from a route a non-admin may
            # call, with arguments a tenant controls
            if first['fn'] not in reach or not real:
                informational.append({
                    'group': g, 'cases': len(bs), 'example': first['case'],
                    'detail': first['detail'],
                    'why_not_a_violation': (
                        'argument shape (forged project_id / foreign '
                        'workflow id handed straight to the create '
                        'primitive) is not built from tenant input by any '
                        'product caller'
                        if first['fn'] in reach else
                        'function not reached by any route a non-admin '
                        'may call under the default policy')})
                continue
            bs = real
            first = bs[0]
        n_viol_cases += len(bs)
        whos = sorted(set(b['case'].rsplit('/as=', 1)[1] for b in bs))
        msg = '%s | %d violating cases (callers %s), first: %s' % (
            first['detail'], len(bs), ','.join(whos), first['case'])
        rep.violation(g, msg, first['doc'])

    rep.counters = counters
    rep.counters['breach_cases_total'] = len(breaches)
    rep.counters['violating_cases_tenant_reachable'] = n_viol_cases
    rep.assumptions = [
        'authentication is enabled; the identity headers are what '
        'keystonemiddleware sets after validating a token (keystone itself '
        'and its trusts are outside the system)',
        'default policy rules (code sources and dynamic actions are '
        'admin-only there, so their db-level weaknesses are listed as '
        'informational, not as violations)',
        'executions cannot be made public through any API, so execution, '
        'task and action-execution rows are enumerated with scope private '
        'only',
        'one resource per project and type (plus what it needs), namespaces '
        'empty; SQLite',
        'REST calls that need the engine run the real EngineServer endpoint '
        'synchronously; the event engine is not run',
        'a db-level breach counts as a violation only if the function is '
        'observed to be called by a REST route open to non-admins in this '
        'run and the argument shape is one a tenant controls; the rest is '
        'listed under coverage.db_level_weaknesses_not_tenant_reachable',
    ]
    rep.extra = {
        'bounds': {
            'setups': sum(1 for j in jobs if j[0] == 'setup') // 2,
            'setup_space': 'resource type (11) x scope x collision '
                           '{none, B-private, B-public, B-public-first, '
                           'M-private} x share {none, pending, accepted, '
                           'rejected} (shares for workflows only)',
            'actors': 'owner A, other B, member M, admin ADM',
            'depth': 'setup prefix (1-4 operations) + 1 operation; for the '
                     'setups with depth 2 + 1 more operation after every '
                     'distinct state reached by a db operation (quick: '
                     'every read; thorough: every db operation, every '
                     'expression and every REST read)',
            'setups_with_depth_2': sum(1 for j in jobs
                                       if j[0] == 'setup' and j[3]),
            'engine_cases': len(E.engine_cases()),
            'use_cases': len(E.use_cases()),
        },
        'db_api_functions': {'enumerated': n_cov, 'excluded': n_excl,
                             'unclassified': missing,
                             'exclusions': W.EXCLUDED},
        'db_functions_reached_by_tenant_routes': sorted(reach),
        'db_level_weaknesses_not_tenant_reachable': informational,
        'unexpected_exceptions': unexpected[:12],
        'violation_groups': len(rep.viol),
        'worker_seconds_per_level': {k: int(v) for k, v in timing.items()},
    }
    rep.validated = rep.validated
    for h in harness:
        print('HARNESS-NOTE property=%s %s' % (PROP, str(h)[:300]))
    rep.extra['harness_notes'] = harness[:10]
    os.environ.setdefault('VERIF_MAX_CONFIRM', '64')
    return rep.finish(
        rule='setup (type x scope x name collision x share status, built by '
             'real calls from the empty DB) x operation (every tenant-facing '
             'db_api function and argument variant, every REST route that '
             'reaches them, every expression function form) x caller '
             '(owner, other project, member, admin); engine cases = path x '
             'expression x language and kind x scope x caller; a case is '
             'distinct by (level, setup, first operation, operation, '
             'caller); a state is the raw content of all tenant tables',
        exhaustive=not harness)


# ------------------------------------------------------------------ replay
def replay(doc):
    M, W, R, E = _mods()
    lvl = doc['level']
    if lvl == 'engine':
        obs, br = E.run_engine_case(E.EngineCase(*doc['case']))
    elif lvl == 'use':
        obs, br = E.run_use_case(E.UseCase(*doc['case']))
    else:
        s = W.Setup(*doc['setup']).build()
        if doc.get('first'):
            op1 = [o for o in W.db_ops(s) if o.id == doc['first']['op']][0]
            W.run_db_op(s, op1, doc['first']['who'])
            s = W.Derived(s, doc['first']['op'])
        base = lvl[:-1] if lvl.endswith('2') else lvl
        ops = {'db': W.db_ops, 'rest': R.rest_ops, 'expr': E.expr_ops}[
            base](s)
        op = [o for o in ops if o.id == doc['op']][0]
        run = {'db': W.run_db_op, 'rest': R.run_rest_op,
               'expr': E.run_expr_op}[base]
        obs, br = run(s, op, doc['who'])
    hit = [d for b, d in br if b == doc['breach']]
    if hit:
        return True, '%s: %s' % (doc['breach'], hit[0])
    return False, 'no %s; outcome %s, breaches %s' % (
        doc['breach'], obs.get('exc') or 'ok', [b for b, _ in br])
