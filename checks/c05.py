"""C05 - a task sees exactly the data published by its causal predecessors.

Engine explorer over fork/join graphs with publish / publish-on-error placed
on either branch (roles swapped so that the re-publishing branch is both the
first and the last row returned to the merge), scalar and 3-level nested
values, YAQL and Jinja spelling, x result assignments x all interleavings.
Oracle: every task's stored inbound context, its published variables and
the workflow output equal the reference model's causal-latest-publisher
semantics; stored contexts of finished tasks never change afterwards; no
expression evaluation modifies the context it is given."""
import json
import time

from checks import common
from mc import env, wfgen, wfscn

PROP = 'C05'


class DataScenario(wfscn.ProgScenario):
    def spec(self):
        return ('checks.c05', 'DataScenario', self.kwargs())

    def setup(self):
        env.install_expr_monitor()
        super(DataScenario, self).setup()
        self._ev = 0

    def check_step(self, pre, post, choice, ctx):
        v = super(DataScenario, self).check_step(pre, post, choice, ctx)
        ev = env.W.events
        for e in ev[getattr(env.W, '_c05_seen', 0):]:
            if e[0] == 'ctx_mutated':
                v.append('evaluating %s modified the context it was given: '
                         'before=%s after=%s' % (e[1], e[2], e[3]))
        env.W._c05_seen = len(ev)
        pre_t = {t['id']: t for t in pre['task_executions_v2']}
        for t in post['task_executions_v2']:
            p = pre_t.get(t['id'])
            if p is None or p['state'] not in wfscn.COMPLETED:
                continue
            if t['state'] != p['state']:
                continue
            for col in ('published', 'in_context'):
                if p[col] != t[col]:
                    v.append('stored %s of finished task %s changed later: '
                             '%s -> %s' % (col, t['name'], p[col][:200],
                                           t[col][:200]))
        return v


def scenarios(tier):
    quick = tier == 'quick'
    jobs = []
    for name, prog in wfgen.dataflow_shapes().items():
        keys = wfgen.action_keys(prog)
        assigns = [{k: ['S'] for k in keys}]
        if 'on_error' in name or 'clause_' in name or not quick:
            for k in keys:
                assigns.append({x: ['E' if x == k else 'S'] for x in keys})
        for jinja in (False, True):
            for res in assigns:
                tag = ''.join(res[k][0] for k in sorted(res))
                scn = DataScenario(
                    '%s/%s/%s' % (name, 'jinja' if jinja else 'yaql', tag),
                    prog, results=res, jinja=jinja)
                jobs.append((scn, 2 if quick else None,
                             30 if quick else 900, 1))
    return jobs


def main(tier):
    rep = common.Report(PROP, tier)
    jobs = common.rotate(scenarios(tier))
    deadline = time.time() + (270 if tier == 'quick' else 1500)
    res = common.parallel_map(common.explore_job, jobs, deadline=deadline)
    rep.add_explore_results(jobs, res)
    nonconf = sum(1 for j in jobs if not j[0].model()['confluent'])
    rep.extra = {'programs_with_conflicting_publishers': nonconf}
    rep.assumptions = [
        'default configuration: context versioning on, merge strategy '
        'replace',
        'the order in which upstream rows reach the merge is varied by '
        'swapping which branch re-publishes (rows are returned in insertion '
        'order on SQLite)',
        'transactions are atomic steps',
    ]
    return rep.finish(
        rule='data-flow programs x spelling x result assignments; DFS over '
             'interleavings; terminal: stored in_context / published of every '
             'task and the output vs. the reference model (latest causal '
             'publisher per leaf); every step: finished tasks keep their '
             'stored contexts, evaluations leave their context untouched')
