"""C17 - a cron trigger fires once per due time and never more than its
count (CronMC).

1-3 processors (activities running the real
periodic.process_cron_triggers_v2 once per round) over 1-2 triggers with all
combinations of pattern / first time / count, at clock positions just due /
one period late / long lag, over several rounds; all interleavings of their
DB steps (list, advance = compare-and-swap update or delete, start request)
and a crash of one processor at any point.  start_workflow requests are
intercepted at the RPC driver and recorded with their auth context."""
import datetime
import json
import time

from checks import common
from mc import env
from mc.explore import Scenario

PROP = 'C17'
PROJECTS = ('projA', 'projB')


class _FakeKs(object):
    session = None
    auth_token = 'trust-token'
    user_id = 'trustee'


def _install_stubs():
    from mistral.services import security
    from mistral.utils.openstack import keystone
    keystone.client_for_trusts = lambda trust_id: _FakeKs()

    class _Trust(object):
        def __init__(self, i):
            self.id = i
    security.create_trust = lambda: _Trust(
        'trust-' + env.auth_context.ctx().project_id)
    security.delete_trust = lambda trust_id=None: None


def _key(t):
    return '%s@%s' % (t['name'], t['project'])


def ts(t):
    return env.EPOCH + datetime.timedelta(seconds=t)


def off(dt):
    if dt is None:
        return None
    if isinstance(dt, str):
        dt = datetime.datetime.strptime(dt[:19], '%Y-%m-%d %H:%M:%S')
    return int((dt - env.EPOCH).total_seconds())


class CronScenario(Scenario):
    hash_clock = True
    horizon_is_terminal = True
    horizon_steps = 300

    def __init__(self, name, triggers, rounds, crash=None, rp=False):
        """triggers: dicts name, project, pattern, first (offset s or None),
        count; rounds: list of (processor, start offset s)."""
        self.name = name
        self.triggers = triggers
        self.rounds = [list(r) for r in rounds]
        self.crash = crash
        self.rp = rp
        self.horizon_clock = max(r[1] for r in rounds) + 5

    def spec(self):
        return ('checks.c17', 'CronScenario', dict(
            name=self.name, triggers=self.triggers, rounds=self.rounds,
            crash=self.crash, rp=self.rp))

    def describe(self):
        return {'name': self.name, 'triggers': self.triggers,
                'rounds(processor,start_s)': self.rounds,
                'crash_of': self.crash,
                'transactions_may_overlap_before_their_first_write': self.rp}

    def setup(self):
        _install_stubs()
        env.reset(overrides=[('auth_enable', True, 'pecan')])
        w = env.W
        w.rp = self.rp
        w.extra['fires'] = []
        w.extra['crashed'] = []
        w.extra['advances'] = []
        from mistral.services import triggers as trig_svc
        from mistral.services import workflows as wf_svc
        wf = "version: '2.0'\nwf:\n  input: [x]\n  tasks:\n    t:\n" \
             "      action: std.noop\n"
        for p in PROJECTS:
            env.with_ctx(lambda: wf_svc.create_workflows(wf),
                         env.default_ctx(project=p))
        # a public workflow owned by the first project: other projects may
        # put their own triggers on it
        pub = wf.replace('wf:', 'pubwf:', 1)
        env.with_ctx(lambda: wf_svc.create_workflows(pub, scope='public'),
                     env.default_ctx(project=PROJECTS[0]))
        for t in self.triggers:
            first = ts(t['first']) if t.get('first') is not None else None

            def mk(t=t, first=first):
                return trig_svc.create_cron_trigger(
                    t['name'], t.get('wf') or 'wf', {'x': _key(t)},
                    {'env': {'who': _key(t)}},
                    pattern=t.get('pattern'), first_time=first,
                    count=t.get('count'), start_time=ts(0))
            env.with_ctx(mk, env.default_ctx(project=t['project']))
        env.auth_context.set_ctx(None)

        def intercept(topic, ctx, method, kwargs):
            if method != 'start_workflow':
                return False, None
            a = env.cur_act()
            if a is not None:
                # the request leaves the process here: a crash may land
                # between the committed advance and this send
                a.dirty = False
                env.yield_point('send')
            w.extra['fires'].append({
                'input': kwargs.get('wf_input'),
                'params': kwargs.get('params'),
                'project': getattr(ctx, 'project_id', None),
                'trust': getattr(ctx, 'trust_id', None),
                'desc': kwargs.get('description'),
                'clock': w.clock, 'by': getattr(a, 'owner', None)})
            return True, None
        w.rpc_intercept = intercept
        from mistral.services import periodic
        for i, (proc, start) in enumerate(self.rounds):
            a = env.Activity(
                'cron', 'P%d#%d' % (proc, i),
                lambda: periodic.process_cron_triggers_v2(None, None))
            a.owner = 'P%d' % proc
            a.blocked_on = ('time', start)
            env.W.acts.append(a)

    def externals(self):
        out = []
        w = env.W
        if self.crash is not None and not w.extra['crashed']:
            name = 'P%d' % self.crash
            live = [a for a in w.acts
                    if getattr(a, 'owner', None) == name and a.steps > 0]
            if live:
                def do():
                    for a in list(w.acts):
                        if getattr(a, 'owner', None) == name:
                            a.done = True
                    w.acts = [a for a in w.acts if not a.done]
                    w.extra['crashed'].append(name)
                out.append(env.Choice('X:crash:%s' % name, 'ext', do,
                                      10 ** 9 + 1,
                                      'crash of processor ' + name, cost=0,
                                      tag='crash'))
        return out

    def extra_state(self):
        w = env.W
        return [[(f['input'], f['project'], f['clock'], f['by'])
                 for f in w.extra['fires']], w.extra['crashed'],
                w.extra['advances']]

    # -------------------------------------------------------------- oracles
    def _pattern_ok(self, t, new):
        if t.get('pattern') == '* * * * *':
            return new % 60 == 0
        if t.get('pattern') == '*/2 * * * *':
            return new % 120 == 0
        return True

    def check_step(self, pre, post, choice, ctx):
        v = []
        w = env.W
        for where, cls, is_m, text in ctx.new_exceptions:
            v.append('cron processor died with %s: %s' % (cls, text))
        spec = {_key(t): t for t in self.triggers}
        pre_r = {(r['name'], r['project_id']): r
                 for r in pre['cron_triggers_v2']}
        post_r = {(r['name'], r['project_id']): r
                  for r in post['cron_triggers_v2']}
        who = getattr(choice.obj, 'owner', None) \
            if choice.kind == 'act' else None
        for k0, p in pre_r.items():
            k = ('%s@%s' % k0,)
            q = post_r.get(k0)
            old = off(p['next_execution_time'])
            if q is None:
                w.extra['advances'].append([k[0], old, None, who])
                if old >= w.clock + 2:
                    v.append('trigger %s removed before it was due'
                             % k[0])
                continue
            new = off(q['next_execution_time'])
            if new != old:
                w.extra['advances'].append([k[0], old, new, who])
                if new <= old:
                    v.append('next_execution_time of %s moved backwards: '
                             't=%d -> t=%d' % (k[0], old, new))
                if old >= w.clock + 2:
                    v.append('trigger %s advanced before it was due (next '
                             't=%d, now t=%d)' % (k[0], old, w.clock))
                if new <= w.clock and new > old:
                    v.append('trigger %s advanced to t=%d which is not in '
                             'the future (now t=%d)' % (k[0], new, w.clock))
                if not self._pattern_ok(spec[k[0]], new):
                    v.append('next_execution_time t=%d of %s is not on its '
                             'pattern %s' % (new, k[0],
                                             spec[k[0]].get('pattern')))
                pr, qr = p['remaining_executions'], q['remaining_executions']
                if pr is not None and qr != pr - 1:
                    v.append('remaining_executions of %s: %s -> %s'
                             % (k[0], pr, qr))
            elif p['remaining_executions'] != q['remaining_executions']:
                v.append('remaining_executions of %s changed without an '
                         'advance' % k[0])
        # fires
        fires = w.extra['fires']
        per = {}
        for f in fires:
            name = (json.loads(f['input']) if isinstance(f['input'], str)
                    else f['input'] or {}).get('x')
            per.setdefault(name, []).append(f)
        advs = {}
        for a in w.extra['advances']:
            advs.setdefault(a[0], []).append(a)
        for name, fs in per.items():
            t = spec.get(name)
            if t is None:
                v.append('workflow started with unknown input %s' % name)
                continue
            if len(fs) > len(advs.get(name, [])):
                v.append('trigger %s started %d workflows for %d due '
                         'occurrence(s)' % (name, len(fs),
                                            len(advs.get(name, []))))
            if t.get('count') and len(fs) > t['count']:
                v.append('trigger %s with count %d fired %d times'
                         % (name, t['count'], len(fs)))
            if not t.get('pattern') and len(fs) > 1:
                v.append('first-execution-time-only trigger %s fired %d '
                         'times' % (name, len(fs)))
            for f in fs:
                if f['project'] != t['project']:
                    v.append('trigger %s of project %s started a workflow '
                             'on behalf of project %s'
                             % (name, t['project'], f['project']))
                params = json.loads(f['params']) \
                    if isinstance(f['params'], str) else f['params']
                if (params or {}).get('env') != {'who': name}:
                    v.append('trigger %s started a workflow with params %s'
                             % (name, params))
        return v

    def check_terminal(self, snap, ctx):
        v = []
        w = env.W
        spec = {_key(t): t for t in self.triggers}
        per = {}
        for f in w.extra['fires']:
            name = (json.loads(f['input']) if isinstance(f['input'], str)
                    else f['input'] or {}).get('x')
            per[name] = per.get(name, 0) + 1
        advs = {}
        for a in w.extra['advances']:
            advs.setdefault(a[0], []).append(a)
        rows = {'%s@%s' % (r['name'], r['project_id']): r
                for r in snap['cron_triggers_v2']}
        for name, t in spec.items():
            n_adv = len(advs.get(name, []))
            n = per.get(name, 0)
            lost = [a for a in advs.get(name, [])
                    if a[3] in w.extra['crashed']]
            if n != n_adv:
                if n < n_adv and len(lost) >= n_adv - n:
                    v.append('due occurrence of %s advanced by %s which then '
                             'crashed before sending the start request: no '
                             'workflow started for it'
                             % (name, lost[0][3]))
                else:
                    v.append('trigger %s: %d due occurrence(s) consumed but '
                             '%d workflow(s) started' % (name, n_adv, n))
            if t.get('count') and n_adv >= t['count'] and name in rows:
                v.append('trigger %s fired its %d times but was not removed'
                         % (name, t['count']))
        key = json.dumps([sorted(per.items()), w.extra['crashed']])
        return key, v


def TR(name, project='projA', pattern='* * * * *', first=None, count=None):
    return dict(name=name, project=project, pattern=pattern, first=first,
                count=count)


def scenarios(tier):
    quick = tier == 'quick'
    S = []

    def add(name, trig, rounds, crash=None, bound=None, secs=60, rp=False):
        S.append((CronScenario(name, trig, rounds, crash=crash, rp=rp),
                  bound, secs if quick else secs * 10, 1))

    # overlapping transactions (READ COMMITTED): a processor that has only
    # read so far may be overtaken before its first write
    for cnt in (None, 1, 2):
        add('2p-due-c%s-overlap' % cnt, [TR('t1', count=cnt)],
            [(0, 60), (1, 60), (0, 120)], rp=True,
            bound=None)
    add('2p-first-only-overlap', [TR('t1', pattern=None, first=120)],
        [(0, 120), (1, 120)], rp=True, bound=None)
    add('2p-crash-c2-overlap', [TR('t1', count=2)],
        [(0, 60), (1, 60), (1, 120)], crash=0, rp=True, bound=None)
    add('2p-lag-c2-overlap', [TR('t1', count=2)],
        [(0, 600), (1, 600), (1, 660)], rp=True, bound=None)
    add('3p-two-triggers-overlap',
        [TR('t1', 'projA', count=1), TR('t2', 'projB')],
        [(0, 60), (1, 60), (2, 60)], rp=True, bound=None if not quick else 3)
    add('2p-first+pattern-c2-overlap', [TR('t1', first=90, count=2)],
        [(0, 90), (1, 90), (0, 150), (1, 150)], rp=True,
        bound=None if not quick else 3)
    # a trigger of one project on the public workflow of another: the run
    # is started on behalf of the trigger's project
    add('2p-foreign-public-workflow',
        [dict(TR('t1', 'projB', count=2), wf='pubwf'),
         dict(TR('t2', 'projA'), wf='pubwf')],
        [(0, 60), (1, 60), (0, 120)], bound=None)
    add('3p-due-c1-overlap', [TR('t1', count=1)],
        [(0, 60), (1, 60), (2, 60)], rp=True, bound=None)

    for cnt in (None, 1, 2):
        c = 'c%s' % cnt
        add('1p-due-' + c, [TR('t1', count=cnt)], [(0, 60), (0, 120)])
        add('2p-due-' + c, [TR('t1', count=cnt)],
            [(0, 60), (1, 60), (0, 120), (1, 120)],
            bound=None)
        add('2p-late-' + c, [TR('t1', count=cnt)],
            [(0, 125), (1, 125), (0, 185)], bound=None)
        add('2p-lag-' + c, [TR('t1', count=cnt)],
            [(0, 600), (1, 600), (1, 660)], bound=None)
    add('2p-every2', [TR('t1', pattern='*/2 * * * *')],
        [(0, 120), (1, 120), (0, 240)])
    add('2p-first-only', [TR('t1', pattern=None, first=120)],
        [(0, 60), (0, 120), (1, 120), (0, 180)])
    add('2p-first+pattern-c2', [TR('t1', first=90, count=2)],
        [(0, 90), (1, 90), (0, 150), (1, 150), (0, 210)],
        bound=None)
    add('2p-two-projects', [TR('t1', 'projA'), TR('t2', 'projB', count=1)],
        [(0, 60), (1, 60)], bound=None)
    add('2p-same-name-two-projects',
        [TR('t1', 'projA'), dict(TR('t1', 'projB'), name='t1')],
        [(0, 60), (1, 60)], bound=None)
    add('3p-due', [TR('t1', count=2)], [(0, 60), (1, 60), (2, 60), (0, 120),
                                        (1, 120)],
        bound=None)
    add('2p-crash', [TR('t1', count=2)], [(0, 60), (1, 60), (1, 120)],
        crash=0, bound=None)
    add('2p-crash-nocount', [TR('t1')], [(0, 60), (1, 60), (1, 120)],
        crash=0, bound=None)
    return S


def main(tier):
    rep = common.Report(PROP, tier)
    jobs = [j for j in common.rotate(scenarios(tier))]
    deadline = time.time() + (150 if tier == 'quick' else 1800)
    res = common.parallel_map(common.explore_job, jobs, deadline=deadline)
    rep.add_explore_results(jobs, res)
    rep.assumptions = [
        'the workflow start request is intercepted at the RPC driver '
        '(recorded with its auth context, input and params); the engine '
        'side of start_workflow is C01',
        'keystone trust calls are stubbed (auth enabled, so that the '
        'project of the start request is observable)',
        'each DB call of a processor is an atomic step; in the -overlap '
        'scenarios a DB call that has only read so far may additionally be '
        'overtaken by complete calls of other processors before its first '
        'write (the overlap READ COMMITTED allows); virtual clock',
    ]
    return rep.finish(
        rule='triggers (pattern, first time, count, project) x processor '
             'rounds at clock positions (due / late / long lag) x crash of '
             'one processor at any point; DFS over all interleavings of the '
             'processors\' DB steps; state = cron rows + suspended '
             'processors + fire log + absolute clock')
