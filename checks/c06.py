"""C06 - duplicate or redelivered messages have the effect of a single
delivery.

Engine explorer over small programs x results x interleavings (bounded) x a
fault menu: any one (two in thorough) already delivered message of kind
on_action_complete, start_task, start_workflow (carrying an execution id) is
delivered again at every later point; a run_action request is redelivered
(redelivered=True) to the executor at every later point, for safe-rerun and
non-safe-rerun tasks.  Oracles: per step - at most one accepted result per
action, no second action execution for a (task, index, attempt), no second
task execution of a task, a redelivered non-safe-rerun action is not run and
reports exactly one error, every action run reports at most one result;
terminal - the outcome is one the duplicate-free language semantics allows."""
import json
import time

from checks import common
from mc import env, wfgen, wfscn, cmdscn, refmodel

PROP = 'C06'
DUP_KINDS = ('on_action_complete', 'start_task', 'start_workflow',
             'run_action', 'run_action_lost')


class DupScenario(cmdscn.CmdScenario):
    def __init__(self, name, prog, dup_kinds=DUP_KINDS, max_dups=1,
                 wf_ex_id=True, **kw):
        super(DupScenario, self).__init__(name, prog, **kw)
        self.dup_kinds = list(dup_kinds)
        self.max_dups = max_dups
        self.with_id = wf_ex_id

    def spec(self):
        return ('checks.c06', 'DupScenario', self.kwargs())

    def kwargs(self):
        d = super(DupScenario, self).kwargs()
        d.update(dup_kinds=self.dup_kinds, max_dups=self.max_dups,
                 wf_ex_id=self.with_id)
        return d

    def describe(self):
        d = super(DupScenario, self).describe()
        d.update(dup_kinds=self.dup_kinds, max_dups=self.max_dups)
        return d

    def start(self):
        env.post('start_workflow', wf_identifier=self.wf, wf_namespace='',
                 wf_ex_id=env.gen_uuid() if self.with_id else None,
                 wf_input=dict(self.wf_input), description='',
                 params=dict(self.params))

    def setup(self):
        # keep executor requests in the pool so that they can be duplicated
        super(DupScenario, self).setup()
        w = env.W
        if 'run_action_lost' in self.dup_kinds:
            w.eager_executor = False
        w.extra['dups'] = []
        w.extra['delivered'] = []
        w.extra['redelivered_actions'] = {}
        self._seen_msgs = 0

    def extra_state(self):
        return [env.W.extra['dups'],
                sorted(env.W.extra['redelivered_actions'].items()),
                cmdscn.CmdScenario.extra_state(self)]

    def _track(self):
        """Remember eligible messages once they were delivered."""
        w = env.W
        known = set(m.seq for m in w.extra['delivered'])
        for m in w.extra.get('all_msgs', []):
            pass

    def externals(self):
        w = env.W
        # operator commands that put tasks into the states in which a
        # duplicate may arrive (paused actions / sub-workflows)
        out = cmdscn.CmdScenario.externals(self) if self.menu else []
        if len(w.extra['dups']) >= self.max_dups:
            return out
        pending = set(m.seq for m in w.msgs)
        if 'run_action_lost' in self.dup_kinds:
            # the executor that took the request died before running it; the
            # transport redelivers the request to another executor
            for m in list(w.msgs):
                if m.method != 'run_action' or m.dup_of:
                    continue

                def lost(m=m):
                    w.msgs.remove(m)
                    c = m.clone(redelivered=True)
                    w.extra['dups'].append(['run_action_lost', m.short()])
                    aid = json.loads(m.kwargs['action_ex_id'])
                    w.extra['redelivered_actions'][aid] = {
                        'safe': bool(json.loads(m.kwargs['safe_rerun'])),
                        'runs_at': len(w.run_log),
                        'key': _find_key(json.loads(m.kwargs['action'])),
                        'msg_seq': c.seq}
                    w.msgs.append(c)
                    env.deliver_now(c)
                n = len(w.extra['dups'])
                out.append(env.Choice(
                    'X%d:lost:M%d' % (n, m.seq), 'ext', lost, 10 ** 9 + 6,
                    'executor lost, request redelivered: %s' % m.short(),
                    cost=0, tag='dup:run_action_lost'))
        for m in w.extra['msgs_seen']:
            if m.seq in pending or m.dup_of:
                continue
            if m.method not in self.dup_kinds and not (
                    m.method == 'on_action_complete' and
                    'wf_result' in self.dup_kinds):
                continue
            if m.method == 'start_workflow' and \
                    m.kwargs.get('wf_ex_id') in (None, 'null'):
                continue
            if m.method == 'on_action_complete' and \
                    '"wf_action": "true"' in m.short() and \
                    'wf_result' not in self.dup_kinds:
                # (the result message of a sub-workflow: duplicated by the
                # 'wf_result' fault kind only)
                continue
            if m.method == 'on_action_complete' and \
                    '"wf_action": "true"' not in m.short() and \
                    self.dup_kinds == ['wf_result']:
                continue

            def do(m=m):
                red = (m.method == 'run_action')
                c = m.clone(redelivered=red)
                w.extra['dups'].append([m.method, m.short()])
                # overlap mode: the first delivery is still being handled
                # (its transaction has only read so far)
                if any(not a.done and a.msg is m for a in w.acts):
                    h = w.extra.setdefault('hist', [])
                    tag = 'duplicate-handled-inside-the-open-transaction-' \
                          'of-the-first-delivery'
                    if tag not in h:
                        h.append(tag)
                if red:
                    aid = json.loads(m.kwargs['action_ex_id'])
                    safe = json.loads(m.kwargs['safe_rerun'])
                    act = json.loads(m.kwargs['action'])
                    key = str(act).split("'key': '")[-1].split("'")[0] \
                        if "'key': '" in str(act) else None
                    if key is None:
                        key = _find_key(act)
                    w.extra['redelivered_actions'][aid] = {
                        'safe': bool(safe), 'runs_at': len(w.run_log),
                        'key': key, 'msg_seq': c.seq}
                w.msgs.append(c)
                env.deliver_now(c)
            n = len(w.extra['dups'])
            out.append(env.Choice(
                'X%d:dup:M%d' % (n, m.seq), 'ext', do, 10 ** 9 + 7,
                'duplicate delivery of %s' % m.desc()[:120], cost=0,
                tag='dup:' + m.method))
        return out

    # -------------------------------------------------------------- oracles
    def check_step(self, pre, post, choice, ctx):
        v = []
        w = env.W
        for where, cls, is_mistral, text in ctx.new_exceptions:
            if not is_mistral and 'already completed' not in text:
                v.append('engine entry point failed with undeclared error '
                         '%s at %s: %s' % (cls, where, text))
        # per (task, index): accepted results and attempts
        acts = {}
        for a in post['action_executions_v2']:
            idx = (wfscn.jl(a['runtime_context']) or {}).get('index', 0)
            acts.setdefault((a['task_execution_id'], idx), []).append(a)
        tname = {t['id']: t['name'] for t in post['task_executions_v2']}
        for (tid, idx), lst in acts.items():
            acc = [a for a in lst if a['accepted']]
            if len(acc) > 1:
                v.append('task %s item %s has %d accepted results'
                         % (tname.get(tid), idx, len(acc)))
            spec = self.prog['tasks'].get(tname.get(tid), {})
            retry = spec.get('retry') or (self.prog.get('task-defaults')
                                          or {}).get('retry')
            allowed = 1 + int((retry or {}).get('count', 0))
            if len(lst) > allowed:
                v.append('action of task %s item %s dispatched %d times '
                         '(allowed %d)' % (tname.get(tid), idx, len(lst),
                                           allowed))
        names = {}
        for t in post['task_executions_v2']:
            k = (t['workflow_execution_id'], t['name'])
            names[k] = names.get(k, 0) + 1
        for (wid, name), n in names.items():
            if n > 1:
                v.append('task %s created %d times in one execution'
                         % (name, n))
        roots = [x for x in post['workflow_executions_v2']
                 if not x['task_execution_id']]
        if len(roots) > 1:
            v.append('duplicate start request created %d executions'
                     % len(roots))
        # executor side: holds in every later state as well
        for aid, info in w.extra['redelivered_actions'].items():
            runs_after = [r for r in w.run_log[info['runs_at']:]
                          if r[2] == aid]
            results = [x for x in w.msg_log
                       if x[2] == 'on_action_complete' and aid in x[3]
                       and x[0] > info['msg_seq']]
            if not info['safe']:
                if runs_after:
                    v.append('redelivered request for an action not marked '
                             'safe to re-run was executed')
                if len(results) > 1:
                    v.append('redelivered non-safe-rerun action reported %d '
                             'results (expected exactly one error)'
                             % len(results))
            else:
                if len(runs_after) > 1:
                    v.append('redelivered safe-rerun action executed %d '
                             'times' % len(runs_after))
                if len(results) > 1:
                    v.append('an executed action reported %d results'
                             % len(results))
        return v

    def check_terminal(self, snap, ctx):
        if any(x['state'] == 'PAUSED'
               for x in snap['workflow_executions_v2']) or any(
                a['state'] == 'PAUSED'
                for a in snap['action_executions_v2']):
            # paused by the operator and not resumed in this run: nothing
            # to compare at the end (the step oracles apply)
            return json.dumps(wfscn.outcome_of(snap, with_ctx=False),
                              sort_keys=True, default=str), []
        key, v = wfscn.WfScenario.check_terminal(self, snap, ctx)
        w = env.W
        models = [self.model()]
        # a redelivered non-safe-rerun action may legitimately fail
        unsafe = [a for a, s in w.extra['redelivered_actions'].items()
                  if not s['safe']]
        if unsafe:
            import itertools
            keys_ = [(wfscn.jl(a['input']) or {}).get('key')
                     for a in snap['action_executions_v2']
                     if a['id'] in unsafe]
            # every non-empty subset of the redelivered non-safe-rerun
            # actions may have failed
            for n in range(1, len(keys_) + 1):
                for sub in itertools.combinations(sorted(set(keys_)), n):
                    res = dict(self.results)
                    for key_ in sub:
                        res[key_] = ['E']
                    models.append(refmodel.allowed_outcomes(
                        self.prog, self.wf_input, res))
        impl = refmodel.project_impl(wfscn.outcome_of(snap))
        ok = any(refmodel.matches(impl, o, True, True)
                 for m in models for o in m['outcomes'])
        if not ok:
            v.append('terminal outcome with duplicates %s is not one a '
                     'single delivery allows: impl=%s allowed=%s' % (
                         w.extra['dups'], json.dumps(impl, sort_keys=True)[:600],
                         json.dumps(models[0]['outcomes'][:3],
                                    sort_keys=True)[:800]))
        return key, v


def _find_key(obj):
    """key attribute inside a serialized action."""
    if isinstance(obj, dict):
        if 'key' in obj and isinstance(obj['key'], str):
            return obj['key']
        for x in obj.values():
            k = _find_key(x)
            if k:
                return k
    if isinstance(obj, list):
        for x in obj:
            k = _find_key(x)
            if k:
                return k
    if isinstance(obj, str) and obj.startswith(('{', '[')):
        try:
            return _find_key(json.loads(obj))
        except ValueError:
            return None
    return None


def programs():
    T, direct = wfgen.T, wfgen.direct
    C = wfgen.curated()
    P = {}
    P['seq2'] = C['seq2']
    P['fork2'] = C['fork2']
    P['join_two_starts'] = C['join_two_starts']
    P['err_route'] = C['err_route']
    P['seq2_safe'] = direct({'a': T(**{'safe-rerun': True,
                                       'on-success': ['b']}), 'b': T()})
    P['retry1'] = direct({'a': T(retry={'count': 1, 'delay': 0},
                                 **{'on-success': ['b']}), 'b': T()})
    return P


def stateful_programs():
    """Programs whose tasks pass through PAUSED / DELAYED / WAITING states
    while a duplicate can arrive: (program, results, scenario kwargs)."""
    T, direct = wfgen.T, wfgen.direct
    out = []
    prog = direct({'a': T(action='async', **{'on-success': ['b']}),
                   'b': T()})
    out.append(('async_paused', prog, {'a': ['S'], 'b': ['S']},
                dict(menu=['async_pause', 'async_resume'], max_cmds=2,
                     sequences=[['async_pause', 'async_resume']])))
    leaf = direct({'s1': T(key='s1')})
    prog = direct({'a': T(workflow='sub', **{'on-success': ['b']}),
                   'b': T()}, subs={'sub': leaf})
    out.append(('subwf_paused', prog, {'s1': ['S'], 'b': ['S']},
                dict(menu=['pause_sub', 'resume_sub'], max_cmds=2,
                     sequences=[['pause_sub', 'resume_sub']],
                     compare_ctx=False)))
    out.append(('subwf', prog, {'s1': ['S'], 'b': ['S']},
                dict(compare_ctx=False)))
    prog = direct({'a': T(**{'on-success': ['b']}),
                   'b': T(**{'wait-before': 1})})
    out.append(('wait_before', prog, {'a': ['S'], 'b': ['S']}, {}))
    prog = direct({'a': T(retry={'count': 1, 'delay': 1},
                          **{'on-success': ['b']}), 'b': T()})
    out.append(('retry_delay', prog, {'a': ['E', 'S'], 'b': ['S']}, {}))
    prog = direct({'a': {'with-items': 'i in <% $.xs %>',
                         'on-success': ['b']}, 'b': T()},
                  input={'xs': ['i0', 'i1']})
    out.append(('items2', prog, {'i0': ['S'], 'i1': ['S'], 'b': ['S']},
                dict(compare_ctx=False)))
    # with-items over sub-workflows under a concurrency limit: the result
    # message of an item delivered twice must not disturb the slot accounting
    leaf1 = direct({'s': {'action': 'act', 'key': '<% $.k %>'}},
                   input={'k': None})
    for conc in (1, 2):
        prog = direct({'a': {'with-items': 'i in <% $.xs %>',
                             'workflow': 'sub',
                             'wf-input': {'k': '<% $.i %>'},
                             'concurrency': conc, 'on-success': ['b']},
                       'b': T()},
                      input={'xs': ['i0', 'i1']}, subs={'sub': leaf1})
        out.append(('items_subwf_c%d' % conc, prog,
                    {'i0': ['S'], 'i1': ['S'], 'b': ['S']},
                    dict(compare_ctx=False)))
    return out


def scenarios(tier):
    quick = tier == 'quick'
    jobs = []
    for pname, prog in programs().items():
        keys = wfgen.action_keys(prog)
        assigns = [{k: ['S'] for k in keys},
                   {k: ['E' if k == keys[0] else 'S'] for k in keys}]
        if pname == 'retry1':
            assigns = [{'a': ['E', 'S'], 'b': ['S']}]
        for res in assigns:
            tag = ''.join(res[k][0] for k in sorted(res))
            for kind in DUP_KINDS:
                scn = DupScenario('%s/dup-%s/%s' % (pname, kind, tag), prog,
                                  results=res, dup_kinds=[kind],
                                  max_dups=1 if quick else 2)
                jobs.append((scn, 0 if quick else 1,
                             40 if quick else 1200, 1))
    for pname, prog, res, kw in stateful_programs():
        for kind in ('start_task', 'on_action_complete', 'start_workflow',
                     'wf_result'):
            if kind in ('start_workflow', 'wf_result') and \
                    'subwf' not in pname:
                continue
            if pname.startswith('items_subwf') and kind == 'start_task':
                continue
            scn = DupScenario('%s/dup-%s' % (pname, kind), prog,
                              results=res, dup_kinds=[kind],
                              max_dups=1 if quick else 2, **kw)
            jobs.append((scn, 0 if quick else 1, 40 if quick else 1200, 1))
    # the duplicate overlaps with the handling of the original: the first
    # delivery has only read so far when the second one is handled
    for j in list(jobs):
        scn = j[0]
        if scn.name.startswith(('seq2/', 'join_two_starts/', 'items2/',
                                'subwf/', 'retry1/')) and (
                'dup-on_action_complete' in scn.name or
                'dup-start_task' in scn.name):
            jobs.append((common.variant(scn, '/overlap', rp=True),
                         0 if quick else 1, 40 if quick else 1200, 1))
    # every policy program of C08 without a timeout (retry matrix, waits,
    # fail-on, with-items and sub-workflow tasks under policies): a result
    # delivered a second time while the task is delayed, waits for its next
    # attempt or already runs it
    from checks import c08 as _c08
    for name, prog, res, extra in _c08.programs(tier):
        if 'menu' in extra or 'timeout' in json.dumps(prog) or \
                name.startswith('retry_expr'):
            continue
        kinds = ['on_action_complete'] if quick else \
            ['on_action_complete', 'start_task']
        if name.startswith('sub_'):
            kinds += ['wf_result'] if quick else ['wf_result',
                                                  'start_workflow']
        kw = {k: v for k, v in extra.items() if k != 'clock_devs'}
        for kind in kinds:
            scn = DupScenario('policy/%s/dup-%s' % (name, kind), prog,
                              results=res, dup_kinds=[kind],
                              max_dups=1 if quick else 2, **kw)
            jobs.append((scn, 0 if quick else 1, 40 if quick else 1200, 1))
    return jobs


def main(tier):
    rep = common.Report(PROP, tier)
    jobs = common.rotate(scenarios(tier))
    deadline = time.time() + (170 if tier == 'quick' else 1500)
    res = common.parallel_map(common.explore_job, jobs, deadline=deadline)
    rep.add_explore_results(jobs, res)
    rep.assumptions = [
        'a duplicate is a second delivery of a message that was already '
        'delivered once; the failing call of a duplicate result (raise + '
        'rollback) is the mechanism, not a violation',
        'transactions are atomic steps',
    ]
    return rep.finish(
        rule='programs x results x (message kind to duplicate) x the '
             'duplicate delivered at every later point x interleavings '
             'within the bound; oracles as in the module docstring')
