"""C20 - lost executors and stuck tasks are detected and the run moves on
exactly once.

Heartbeats: programs (plain, fork, with-items) with synchronous actions whose
executor goes silent (every subset: the run_action request is lost with its
executor) or answers late, an asynchronous action, heartbeats delivered or
not, real checker passes (handle_expired_actions) at the virtual-clock
positions threshold-1 / threshold / threshold+1 for both the first-heartbeat
grace period and max_missed x interval, interleaved in every order with late
genuine results and heartbeat messages.  Integrity check: a with-items task
made stuck by dropping its _scheduled_on_action_complete job, with
execution_integrity_check_delay -1 / 2, before and after the delay, also with
a pause/resume around the first check.
Oracles: an action is failed by the checker only if it is synchronous,
RUNNING and its last heartbeat is older than the threshold, with the
heartbeat message; after a checker pass no such action is left RUNNING; a
late genuine result changes nothing; the terminal outcome is the language
outcome for 'that action failed' (or its genuine result if that arrived
first); a stuck task is completed after the delay, exactly once, never with
the check disabled."""
import datetime
import json
import time

from checks import common
from mc import env, wfgen, wfscn, cmdscn, refmodel, lifecycle

PROP = 'C20'
INTERVAL = 2
MAX_MISSED = 2
FIRST = 3
THRESH = INTERVAL * MAX_MISSED
HB_MSG = "Heartbeat wasn't received."


def _ts(s):
    if s is None:
        return None
    t = datetime.datetime.strptime(str(s)[:19], '%Y-%m-%d %H:%M:%S')
    return int((t - env.EPOCH).total_seconds())


TABLES = dict(env.TABLES)
TABLES['action_executions_v2'] = env.TABLES['action_executions_v2'] + [
    'last_heartbeat']


class HbScenario(cmdscn.CmdScenario):
    """silent: keys whose run_action request is lost; passes: clock
    positions of checker passes; heartbeat_at: clock positions at which a
    heartbeat for all running actions is delivered."""

    def __init__(self, name, prog, silent=(), passes=(), heartbeat_at=(),
                 adhoc=0, batch_size=10, **kw):
        super(HbScenario, self).__init__(name, prog, **kw)
        # adhoc: number of running ad-hoc action executions (no task: the
        # checker cannot fail them and skips them) whose executor is lost
        # too, created before the workflow starts
        self.adhoc = adhoc
        self.batch_size = batch_size
        self.silent = list(silent)
        self.passes = list(passes)
        self.heartbeat_at = list(heartbeat_at)
        self.hash_clock = True
        self.horizon_clock = max(list(passes) + list(heartbeat_at) + [0]) + 3

    horizon_is_terminal = True

    def spec(self):
        return ('checks.c20', 'HbScenario', self.kwargs())

    def kwargs(self):
        d = super(HbScenario, self).kwargs()
        d.update(silent=self.silent, passes=self.passes,
                 heartbeat_at=self.heartbeat_at, adhoc=self.adhoc,
                 batch_size=self.batch_size)
        return d

    def describe(self):
        d = super(HbScenario, self).describe()
        d.update(silent_actions=self.silent, checker_passes_at=self.passes,
                 heartbeats_at=self.heartbeat_at,
                 settings={'check_interval': INTERVAL,
                           'max_missed_heartbeats': MAX_MISSED,
                           'first_heartbeat_timeout': FIRST})
        return d

    def setup(self):
        self.overrides = [
            ('check_interval', INTERVAL, 'action_heartbeat'),
            ('max_missed_heartbeats', MAX_MISSED, 'action_heartbeat'),
            ('first_heartbeat_timeout', FIRST, 'action_heartbeat'),
            ('batch_size', self.batch_size, 'action_heartbeat')]
        super(HbScenario, self).setup()
        w = env.W
        w.eager_executor = False
        for i in range(self.adhoc):
            m = env.post('start_action', action_name='verif.act',
                         namespace='', action_input={'key': 'adhoc%d' % i},
                         description='', params={'save_result': True})
            env.deliver_now(m)
            # its executor dies with the request
            for x in list(w.msgs):
                if x.method == 'run_action':
                    w.msgs.remove(x)
        w.extra['lost'] = []
        w.extra['expired'] = []
        from mistral.services import action_heartbeat_checker as chk
        for i, t in enumerate(self.passes):
            a = env.Activity('checker', 'pass%d@%d' % (i, t),
                             lambda: env.with_ctx(
                                 chk.handle_expired_actions,
                                 env.default_ctx(admin=True)))
            a.owner = 'checker'
            a.blocked_on = ('time', t)
            w.acts.append(a)
        for i, t in enumerate(self.heartbeat_at):
            def hb():
                ids = [r[0] for r in cmdscn.q(
                    "select id from action_executions_v2 "
                    "where state='RUNNING'")]
                if ids:
                    env.post('report_running_actions', action_ex_ids=ids)
            a = env.Activity('hbsender', 'hb%d@%d' % (i, t), hb)
            a.blocked_on = ('time', t)
            w.acts.append(a)

    def extra_state(self):
        return [super(HbScenario, self).extra_state(),
                sorted(env.W.extra['lost'])]

    def externals(self):
        out = super(HbScenario, self).externals()
        w = env.W
        for m in list(w.msgs):
            if m.method != 'run_action':
                continue
            key = None
            try:
                from checks.c06 import _find_key
                key = _find_key(json.loads(m.kwargs['action']))
            except Exception:
                pass
            if key in self.silent and key not in w.extra['lost']:
                def lose(m=m, key=key):
                    w.msgs.remove(m)
                    w.extra['lost'].append(key)
                out.append(env.Choice(
                    'X:lost:%s' % key, 'ext', lose, 10 ** 9 + 3,
                    'executor dies with the request for %s' % key, cost=0,
                    tag='lost'))
        return out

    # ---- oracles ---------------------------------------------------------
    def dump(self):
        return env.dump_tables(TABLES)

    def check_step(self, pre, post, choice, ctx):
        v = []
        w = env.W
        for where, cls, is_mistral, text in ctx.new_exceptions:
            if not is_mistral and 'already completed' not in text:
                v.append('entry point failed with undeclared error %s at '
                         '%s: %s' % (cls, where, text))
        now = w.clock
        pre_a = {a['id']: a for a in pre['action_executions_v2']}
        c = cmdscn.q("select id, last_heartbeat, is_sync, state from "
                     "action_executions_v2")
        hb = {r[0]: (_ts(r[1]), r[2], r[3]) for r in c}
        last = w.extra.setdefault('hb_seen', {})
        for a in post['action_executions_v2']:
            p = pre_a.get(a['id'])
            out = a['output'] or ''
            if p and p['state'] == 'RUNNING' and a['state'] == 'ERROR' \
                    and HB_MSG in out:
                lh = last.get(a['id'], (None,))[0]
                w.extra['expired'].append(a['id'])
                if not a['is_sync']:
                    v.append('asynchronous action %s was expired by the '
                             'heartbeat checker' % a['name'])
                if lh is not None and not (lh < now - THRESH):
                    v.append('action expired at t=%d although its last '
                             'heartbeat / grace deadline t=%d is not older '
                             'than %ds' % (now, lh, THRESH))
        if choice.kind in ('msg', 'act') and \
                'report_running_actions' in (choice.info or '') and \
                not ctx.new_exceptions and getattr(choice.obj, 'done', True):
            # a delivered heartbeat is recorded: it is the moment the
            # silence of this action is measured from (also when it arrives
            # before the first-heartbeat grace period is over)
            listed = json.dumps(getattr(choice.obj, 'kwargs', None) or {},
                                default=str) + (choice.info or '')
            for a in post['action_executions_v2']:
                p = pre_a.get(a['id'])
                # (only the actions the message names: one created after
                # the sender looked still has its grace deadline)
                if p and p['state'] == 'RUNNING' and a['state'] == 'RUNNING' \
                        and str(a['id']) in listed \
                        and hb.get(a['id'], (None,))[0] != now:
                    v.append('heartbeat for running action %s processed at '
                             't=%d but its recorded last heartbeat is t=%s'
                             % (a['name'], now, hb.get(a['id'], (None,))[0]))
        is_checker = choice.kind == 'act' and getattr(
            choice.obj, 'owner', None) == 'checker'
        if is_checker and not ctx.new_exceptions and \
                getattr(choice.obj, 'done', True):
            # (judged when the pass has finished: in overlap mode a pass
            # takes several steps)
            notask = set(a['id'] for a in post['action_executions_v2']
                         if not a['task_execution_id'])
            for aid, (lh, sync, st) in hb.items():
                if aid in notask:
                    # an action without a task cannot be failed by the
                    # checker: it is skipped (and must not stop the others)
                    continue
                if st == 'RUNNING' and sync and lh is not None \
                        and lh < now - THRESH:
                    v.append('checker pass at t=%d left a silent '
                             'synchronous action RUNNING (last heartbeat '
                             't=%d, threshold %ds)' % (now, lh, THRESH))
        for aid, x in hb.items():
            last[aid] = x
        v.extend(m for m in lifecycle.lifecycle_violations(
            pre, post, choice=choice) if 'completed action' in m)
        return v

    def check_terminal(self, snap, ctx):
        key, v = wfscn.WfScenario.check_terminal(self, snap, ctx)
        w = env.W
        # which actions were failed by the checker in this run
        res = dict(self.results)
        exp_keys = []
        for a in snap['action_executions_v2']:
            if a['id'] in w.extra['expired']:
                k = (wfscn.jl(a['input']) or {}).get('key')
                exp_keys.append(k)
        for k in exp_keys:
            # the lost request consumed none of the planned results: a
            # later attempt (retry policy) of the same task gets them
            res[k] = ['E'] + list(self.results.get(k) or [])
        unresolved = [k for k in w.extra['lost'] if k not in exp_keys]
        unresolved += [k for k, r in self.results.items() if r == ['N']]
        if unresolved:
            # a lost action that no checker pass expired yet: the run is
            # legitimately still waiting
            v = [m for m in v if 'quiescent but' not in m]
            return key, v
        m = refmodel.allowed_outcomes(self.prog, self.wf_input, res)
        impl = refmodel.project_impl(wfscn.outcome_of(snap))
        if not any(refmodel.matches(impl, o, False, False)
                   for o in m['outcomes']):
            v.append('after the checker failed %s the run did not follow '
                     'its normal error handling: impl=%s allowed=%s' % (
                         exp_keys, json.dumps(impl, sort_keys=True)[:600],
                         json.dumps(m['outcomes'][:3],
                                    sort_keys=True)[:800]))
        return key, v


class IntegrityScenario(cmdscn.CmdScenario):
    hash_clock = True
    horizon_is_terminal = True

    def __init__(self, name, prog, delay=2, horizon=20, drop=True, **kw):
        super(IntegrityScenario, self).__init__(name, prog, **kw)
        self.delay = delay
        self.horizon_clock = horizon
        self.drop = drop

    def spec(self):
        return ('checks.c20', 'IntegrityScenario', self.kwargs())

    def kwargs(self):
        d = super(IntegrityScenario, self).kwargs()
        d.update(delay=self.delay, horizon=self.horizon_clock,
                 drop=self.drop)
        return d

    def setup(self):
        self.overrides = [
            ('execution_integrity_check_delay', self.delay, 'engine')]
        super(IntegrityScenario, self).setup()
        env.W.extra['dropped'] = []
        env.W.extra['stuck_since'] = None

    def extra_state(self):
        return [super(IntegrityScenario, self).extra_state(),
                env.W.extra['dropped'], env.W.extra['stuck_since']]

    def externals(self):
        out = super(IntegrityScenario, self).externals()
        w = env.W
        if self.drop and not w.extra['dropped']:
            rows = cmdscn.q(
                "select id from delayed_calls_v2 where processing=0 and "
                "target_method_name like '%_scheduled_on_action_complete'")
            n_all = cmdscn.q(
                "select count(*) from action_executions_v2 where "
                "state not in ('SUCCESS','ERROR','CANCELLED')")[0][0]
            if len(rows) >= 1 and n_all == 0:
                # lose every pending completion job of the with-items task
                def drop():
                    env.raw_conn().execute(
                        "delete from delayed_calls_v2 where "
                        "target_method_name like "
                        "'%_scheduled_on_action_complete'")
                    env.raw_conn().commit()
                    w.extra['dropped'].append(len(rows))
                    w.extra['stuck_since'] = w.clock
                out.append(env.Choice('X:dropjobs', 'ext', drop, 10 ** 9 + 4,
                                      'the completion jobs of the task are '
                                      'lost', cost=0, tag='drop'))
        return out

    def check_step(self, pre, post, choice, ctx):
        v = []
        w = env.W
        for where, cls, is_mistral, text in ctx.new_exceptions:
            if not is_mistral and 'already completed' not in text:
                v.append('entry point failed with undeclared error %s at '
                         '%s: %s' % (cls, where, text))
        if w.extra['dropped']:
            pre_t = {t['id']: t for t in pre['task_executions_v2']}
            for t in post['task_executions_v2']:
                p = pre_t.get(t['id'])
                if t['name'] == 'a' and p and p['state'] == 'RUNNING' \
                        and t['state'] != 'RUNNING':
                    if self.delay < 0:
                        v.append('stuck task completed although the '
                                 'integrity check is disabled')
                    elif w.clock - w.extra['stuck_since'] <= self.delay:
                        v.append('stuck task repaired %ds after its last '
                                 'action finished, before the delay of %ds'
                                 % (w.clock - w.extra['stuck_since'],
                                    self.delay))
        # the task completes at most once: successors exist once
        names = {}
        for t in post['task_executions_v2']:
            names[t['name']] = names.get(t['name'], 0) + 1
        for n, c in names.items():
            if c > 1:
                v.append('task %s exists %d times: the stuck task was '
                         'completed more than once' % (n, c))
        return v

    def check_terminal(self, snap, ctx):
        key, v = wfscn.WfScenario.check_terminal(self, snap, ctx)
        w = env.W
        a = [t for t in snap['task_executions_v2'] if t['name'] == 'a']
        paused = any(x['state'] == 'PAUSED'
                     for x in snap['workflow_executions_v2'])
        if w.extra['dropped'] and self.delay >= 0 and not paused:
            if a and a[0]['state'] == 'RUNNING':
                v.append('task left RUNNING with all its actions finished '
                         'was not completed by the integrity check by t=%d '
                         '(delay %ds, stuck since t=%d)'
                         % (w.clock, self.delay, w.extra['stuck_since']))
        else:
            v = [m for m in v if 'quiescent but' not in m]
        return key, v


def programs():
    T, direct = wfgen.T, wfgen.direct
    C = wfgen.curated()
    P = {}
    P['single'] = direct({'a': T(**{'on-error': ['h']}), 'h': T()})
    P['seq2'] = C['seq2']
    P['fork2'] = C['fork2']
    P['async_and_sync'] = direct({'a': T(action='async'), 'b': T()})
    # the task gives up (timeout) before the checker notices the silent
    # executor: the action itself is still running and must still be failed
    P['timeout_first'] = direct({'a': T(timeout=2, **{'on-error': ['h']}),
                                 'h': T()})
    # the failure the checker reports goes through the task's policies and
    # clauses like any other failure of that action
    P['retry1'] = direct({'a': T(retry={'count': 1, 'delay': 0},
                                 **{'on-success': ['b'], 'on-error': ['h']}),
                          'b': T(), 'h': T()})
    P['retry1_delay'] = direct(
        {'a': T(retry={'count': 1, 'delay': 1},
                **{'on-success': ['b'], 'on-error': ['h']}),
         'b': T(), 'h': T()})
    P['wait_after'] = direct({'a': T(**{'wait-after': 1, 'on-error': ['h'],
                                        'on-success': ['b']}),
                              'b': T(), 'h': T()})
    P['publish_on_error'] = direct(
        {'a': T(**{'publish-on-error': {'e': ['lit', 1]},
                   'on-error': ['h']}),
         'h': T(publish={'seen': ['var', 'e']})},
        output={'seen': ['var', 'seen']})
    return P


def items_prog(n=2):
    T, direct = wfgen.T, wfgen.direct
    return direct({'a': {'with-items': 'i in <% $.xs %>',
                         'on-complete': ['b']}, 'b': T()},
                  input={'xs': ['i%d' % k for k in range(n)]})


def scenarios(tier):
    quick = tier == 'quick'
    jobs = []
    T0 = FIRST + THRESH          # first-heartbeat deadline seen from t=0
    for pname, prog in programs().items():
        keys = wfgen.action_keys(prog)
        sync_keys = [k for k in keys
                     if prog['tasks'].get(k, {}).get('action') != 'async']
        subsets = [[k] for k in sync_keys]
        if len(sync_keys) > 1:
            subsets.append(list(sync_keys))
        subsets.append([])
        for silent in subsets:
            res = {k: ['S'] for k in keys}
            for pos, passes in (('before', [T0 - 1, T0]),
                                ('after', [T0 + 1]),
                                ('both', [T0, T0 + 1, T0 + 5])):
                if quick and pos == 'both' and pname != 'single':
                    continue
                scn = HbScenario(
                    'hb/%s/silent=%s/%s' % (pname, '+'.join(silent) or '-',
                                            pos),
                    prog, silent=silent, passes=passes, results=res)
                jobs.append((scn, 1 if quick else 3, 40 if quick else 900,
                             1))
                if pname == 'single' and silent and pos != 'before':
                    # the checker pass overlapping with the late genuine
                    # result inside their transactions
                    jobs.append((common.variant(scn, '/overlap', rp=True),
                                 1 if quick else 2, 40 if quick else 900,
                                 1))
        # heartbeats keep a slow (late answering) action alive
        res = {k: ['S'] for k in keys}
        scn = HbScenario('hb/%s/heartbeat-then-silent' % pname, prog,
                         silent=sync_keys[:1], heartbeat_at=[FIRST],
                         passes=[T0 + 1, FIRST + THRESH + 1,
                                 FIRST + THRESH + 3], results=res)
        jobs.append((scn, 1 if quick else 3, 40 if quick else 900, 1))
        if pname == 'single' or not quick:
            # the heartbeat arrives inside / at / after the grace period;
            # the executor dies afterwards: expiry is measured from the
            # heartbeat
            for hb_t in range(1, FIRST + 2):
                if hb_t == FIRST:
                    continue
                scn = HbScenario(
                    'hb/%s/heartbeat@%d-then-silent' % (pname, hb_t), prog,
                    silent=sync_keys[:1], heartbeat_at=[hb_t],
                    passes=[hb_t + THRESH, hb_t + THRESH + 1,
                            FIRST + THRESH + 1], results=res)
                jobs.append((scn, 1 if quick else 3, 40 if quick else 900,
                             1))
    # actions the checker cannot fail (ad-hoc runs without a task) fill its
    # batch: the lost action of the workflow must still be failed
    prog = programs()['single']
    for adhoc, bs in ((1, 1), (2, 2), (2, 1), (1, 10)):
        scn = HbScenario('hb/single/adhoc%d-batch%d' % (adhoc, bs), prog,
                         silent=wfgen.action_keys(prog)[:1],
                         passes=[T0 + 1, T0 + 2, T0 + 3],
                         results={k: ['S'] for k in wfgen.action_keys(prog)},
                         adhoc=adhoc, batch_size=bs)
        jobs.append((scn, 1 if quick else 3, 40 if quick else 900, 1))
    # an asynchronous action whose third party never answers is never
    # expired, however old it is
    prog = programs()['async_and_sync']
    scn = HbScenario('hb/async-never-answers', prog, silent=[],
                     passes=[T0 + 1, T0 + 5],
                     results={'a': ['N'], 'b': ['S']})
    jobs.append((scn, 1 if quick else 3, 40 if quick else 900, 1))
    # integrity check
    ip = items_prog(2)
    res = {'i0': ['S'], 'i1': ['S'], 'b': ['S']}
    for delay in (-1, 2):
        scn = IntegrityScenario('integrity/delay%d/stuck' % delay, ip,
                                delay=delay, horizon=135, results=res)
        jobs.append((scn, 0 if quick else 1, 40 if quick else 900, 1))
    scn = IntegrityScenario('integrity/delay2/not-stuck', ip, delay=2,
                            horizon=15, drop=False, results=res)
    jobs.append((scn, 1 if quick else 2, 40 if quick else 900, 1))
    scn = IntegrityScenario('integrity/delay2/pause-resume', ip, delay=2,
                            horizon=140, results=res,
                            menu=['pause', 'resume'], max_cmds=2,
                            sequences=[['pause', 'resume']])
    jobs.append((scn, 0, 60 if quick else 900, 1))
    return jobs


def explore_job(job, deadline):
    return common.explore_job(job, deadline)


def main(tier):
    rep = common.Report(PROP, tier)
    jobs = common.rotate(scenarios(tier))
    deadline = time.time() + (170 if tier == 'quick' else 1500)
    res = common.parallel_map(common.explore_job, jobs, deadline=deadline)
    rep.add_explore_results(jobs, res)
    rep.extra = {'settings': {'check_interval': INTERVAL,
                              'max_missed_heartbeats': MAX_MISSED,
                              'first_heartbeat_timeout': FIRST}}
    rep.assumptions = [
        'the checker loop itself (sleep / start-up delay) is replaced by '
        'explicit passes of the real handle_expired_actions at chosen '
        'virtual-clock positions; "disabled" settings mean no pass runs',
        'a silent executor = its run_action request is consumed without any '
        'result; virtual clock (1 s)',
    ]
    return rep.finish(
        rule='programs x subsets of silent actions x checker passes at '
             'threshold-1 / threshold / threshold+1 x heartbeats x late '
             'results x interleavings within the bound; integrity check '
             'with a dropped completion job, delay -1 / 2, pause/resume '
             'around the first check')
