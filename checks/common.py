"""Shared runner: parallel exploration of scenarios, violation confirmation by
replay in a fresh process, known findings, evidence files."""
import collections
import importlib
import json
import multiprocessing
import os
import pickle
import re
import shutil
import subprocess
import sys
import time
import traceback

ROOT = os.path.dirname(os.path.dirname(os.path.abspath(__file__)))
EVID = os.environ.get('VERIF_EVIDENCE_DIR') or os.path.join(ROOT, 'evidence')
REPLAYS = os.path.join(EVID, 'replays')
KNOWN = os.path.join(ROOT, 'known_findings.jsonl')
NPROC = int(os.environ.get('VERIF_NPROC', '16'))


def seed():
    try:
        return int(os.environ.get('VERIF_SEED', '0'))
    except ValueError:
        return 0


def rotate(lst, s=None):
    """VERIF_SEED only rotates visiting order."""
    s = seed() if s is None else s
    if not lst:
        return lst
    k = s % len(lst)
    return lst[k:] + lst[:k]


def load_known(prop):
    out = []
    if os.path.exists(KNOWN):
        for line in open(KNOWN):
            line = line.strip()
            if not line or line.startswith('#') or line.startswith('fixed:'):
                continue
            d = json.loads(line)
            if d.get('property') == prop and d.get('kind') == 'finding':
                out.append(d)
    return out


def match_known(known, viol):
    for k in known:
        m = k.get('match', {})
        if 'scenario_re' in m and not re.search(m['scenario_re'],
                                                viol.get('scenario', '')):
            continue
        if 'message_re' in m and not re.search(m['message_re'],
                                               viol.get('message', ''), re.S):
            continue
        return k
    return None


# ------------------------------------------------------------------ pool
def _worker(widx, jobs, counter, lock, outdir, fn, deadline):
    from mc import explore
    explore._pdeathsig()
    out = []
    while True:
        with lock:
            i = counter.value
            counter.value += 1
        if i >= len(jobs):
            break
        if deadline and time.time() > deadline:
            out.append((i, {'skipped': True}))
            continue
        try:
            out.append((i, fn(jobs[i], deadline)))
        except BaseException:
            out.append((i, {'error': traceback.format_exc()}))
    with open(os.path.join(outdir, 'w%d.pkl' % widx), 'wb') as f:
        pickle.dump(out, f)
    os._exit(0)


def parallel_map(fn, jobs, deadline=None, nproc=None):
    """fn(job, deadline) in forked workers (parent has mistral imported)."""
    nproc = min(nproc or NPROC, max(1, len(jobs)))
    outdir = '/dev/shm/verif-%d-%d' % (os.getpid(), int(time.time() * 1000))
    os.makedirs(outdir)
    ctx = multiprocessing.get_context('fork')
    counter = ctx.Value('i', 0, lock=False)
    lock = ctx.Lock()
    pids = []
    try:
        for w in range(nproc):
            pid = os.fork()
            if pid == 0:
                try:
                    _worker(w, jobs, counter, lock, outdir, fn, deadline)
                finally:
                    os._exit(1)
            pids.append(pid)
        for pid in pids:
            os.waitpid(pid, 0)
        res = [None] * len(jobs)
        for w in range(nproc):
            p = os.path.join(outdir, 'w%d.pkl' % w)
            if os.path.exists(p):
                for i, r in pickle.load(open(p, 'rb')):
                    res[i] = r
        return res
    finally:
        shutil.rmtree(outdir, ignore_errors=True)


# ------------------------------------------------------------------ explore
CURRENT_PROP = [None]


def known_matcher(prop):
    known = load_known(prop)
    if not known:
        return None

    def f(v):
        return match_known(known, v)
    return f


def explore_job(job, deadline):
    """job = (scenario, bound, per-scenario seconds, n_audit)."""
    from mc import explore
    scn, bound, secs, n_audit = job
    dl = time.time() + secs if secs else None
    if deadline:
        dl = min(dl, deadline) if dl else deadline
    ex = explore.Explorer(scn, bound=bound, deadline=dl,
                          known=known_matcher(CURRENT_PROP[0]))
    res = ex.run()
    audit_ok, audit_bad = 0, []
    for path, hashes in res.samples[:n_audit]:
        r = explore.replay(scn, path, check=True, stop_on_violation=False)
        if r['diverged'] or r['hashes'] != hashes:
            audit_bad.append({'scenario': scn.name, 'path': path,
                              'why': r['diverged'] or 'state hashes differ'})
        else:
            audit_ok += 1
    res.new = None
    return {'name': scn.name, 'stats': dict(res.stats),
            'terminals': res.terminals, 'violations': res.violations,
            'samples': [p for p, _ in res.samples[:1]],
            'known': res.known,
            'error': res.error, 'audit_ok': audit_ok, 'audit_bad': audit_bad,
            'bound': bound}


class Report(object):
    """Accumulates what a check covered and writes the evidence file."""

    def __init__(self, prop, tier, level='model_checking'):
        CURRENT_PROP[0] = prop
        self.prop = prop
        self.tier = tier
        self.level = level
        self.t0 = time.time()
        self.stats = collections.Counter()
        self.samples = []
        self.assumptions = []
        self.extra = {}
        self.violations = []      # confirmed, unknown
        self.known_hits = []
        self.harness_errors = []
        self.exhaustive = True
        self.scenarios = 0
        self.by_class = {}

    def add_explore_results(self, jobs, results, klass='default'):
        bc = self.by_class.setdefault(klass, collections.Counter())
        for job, r in zip(jobs, results):
            scn = job[0]
            if r is None or r.get('skipped'):
                self.exhaustive = False
                self.stats['scenarios_skipped_deadline'] += 1
                continue
            if r.get('error'):
                self.harness_errors.append(
                    {'scenario': scn.name, 'error': r['error'][-2000:]})
                self.exhaustive = False
                continue
            self.scenarios += 1
            bc['scenarios'] += 1
            st = r['stats']
            for k in ('states', 'transitions', 'executions', 'pruned',
                      'branching_points', 'cut_by_budget'):
                self.stats[k] += st.get(k, 0)
                bc[k] += st.get(k, 0)
            self.stats['max_enabled'] = max(self.stats['max_enabled'],
                                            st.get('max_enabled', 0))
            if st.get('max_enabled', 0) >= 2:
                self.stats['scenarios_with_concurrency'] += 1
            caps = {k: v for k, v in st.items() if k.startswith('cap_')}
            if caps or st.get('cut_by_budget'):
                self.exhaustive = False
            if caps:
                bc['scenarios_capped'] += 1
                for k, v in caps.items():
                    self.stats[k] += v
            elif not st.get('cut_by_budget'):
                bc['scenarios_exhausted'] += 1
            else:
                bc['scenarios_bounded_k%s' % r['bound']] += 1
            self.stats['traces_validated'] += r['audit_ok']
            for b in r['audit_bad']:
                self.harness_errors.append(b)
            self.stats['distinct_outcomes'] += len(r['terminals'])
            if len(r['terminals']) > 1:
                self.stats['scenarios_multi_outcome'] += 1
            if len(self.samples) < 4 and r['samples']:
                self.samples.append({'scenario': scn.describe(),
                                     'schedule': r['samples'][0]})
            for v in r['violations']:
                v['_scn'] = scn
                self.violations.append(v)
            for what, v in r.get('known', {}).items():
                v['_scn'] = scn
                self.violations.append(v)
            self.stats['known_finding_hits'] += st.get(
                'known_finding_hits', 0)

    # -------------------------------------------------------------- finish
    def finish(self, rule, confirm=True):
        """Confirm violations by replay, print lines, write evidence."""
        known = load_known(self.prop)
        unknown = []
        os.makedirs(REPLAYS, exist_ok=True)
        for f in os.listdir(REPLAYS):
            if f.startswith(self.prop + '-'):
                os.unlink(os.path.join(REPLAYS, f))
        seen_known = set()
        # group messages of one failing execution
        groups = collections.OrderedDict()
        for v in self.violations:
            g = groups.setdefault((v['scenario'], tuple(v['path'])), v)
            if g is not v:
                g['message'] += '\n' + v['message']
        cands = []
        for v in groups.values():
            k = match_known(known, v)
            if k is not None:
                # known findings are confirmed too, but at most one replay
                # per finding
                if k['what'] in seen_known:
                    self.known_hits.append(k['what'])
                    continue
                seen_known.add(k['what'])
            cands.append((v, k))
        max_confirm = int(os.environ.get('VERIF_MAX_CONFIRM', '6'))
        self.stats['violating_executions'] = len(groups)
        # unknown violations first: known findings must never use up the
        # confirmation slots of a violation that no entry matches
        cands.sort(key=lambda x: x[1] is not None)
        n_known = sum(1 for _, k in cands if k is not None)
        n = 0
        todo = []
        for v, k in cands[:max_confirm + n_known]:
            scn = v.pop('_scn', None)
            n += 1
            path = os.path.join(REPLAYS, '%s-%d.json' % (self.prop, n))
            doc = {'property': self.prop, 'scenario': v['scenario'],
                   'spec': scn.spec() if scn is not None else None,
                   'describe': scn.describe() if scn is not None else None,
                   'choices': v['path'], 'kind': v['kind'],
                   'assertion': v['message']}
            if v.get('path_b') is not None:
                doc['choices_b'] = v['path_b']
                if v.get('spec_b') is not None:
                    doc['spec_b'] = v['spec_b']
            with open(path, 'w') as f:
                json.dump(doc, f, indent=1, default=str)
            todo.append((v, k, path))
        procs = []
        for v, k, path in todo:
            if confirm:
                procs.append(start_confirm(self.prop, path))
            else:
                procs.append(None)
        for (v, k, path), pr in zip(todo, procs):
            if pr is not None:
                ok, why = finish_confirm(pr)
                if not ok:
                    self.harness_errors.append(
                        {'scenario': v['scenario'],
                         'why': 'violation not reproduced by replayer: '
                                + why, 'replay': path})
                    continue
            if k is not None:
                print('KNOWN-FINDING: property=%s %s' % (self.prop, k['what']))
                self.known_hits.append(k['what'])
                continue
            unknown.append((v, path))
        self.stats['violations_not_replayed'] = max(0, len(cands) - len(todo))
        if not unknown and len(cands) > len(todo):
            # more unknown candidates than confirmation slots and none of the
            # replayed ones reproduced: replay the rest one by one
            for v, k in cands[len(todo):]:
                scn = v.pop('_scn', None)
                n += 1
                path = os.path.join(REPLAYS, '%s-%d.json' % (self.prop, n))
                doc = {'property': self.prop, 'scenario': v['scenario'],
                       'spec': scn.spec() if scn is not None else None,
                       'describe': scn.describe() if scn is not None
                       else None,
                       'choices': v['path'], 'kind': v['kind'],
                       'assertion': v['message']}
                if v.get('path_b') is not None:
                    doc['choices_b'] = v['path_b']
                    if v.get('spec_b') is not None:
                        doc['spec_b'] = v['spec_b']
                with open(path, 'w') as f:
                    json.dump(doc, f, indent=1, default=str)
                ok, why = finish_confirm(start_confirm(self.prop, path)) \
                    if confirm else (True, '')
                if ok and k is not None:
                    print('KNOWN-FINDING: property=%s %s'
                          % (self.prop, k['what']))
                    self.known_hits.append(k['what'])
                    continue
                if ok:
                    unknown.append((v, path))
                    break
                self.harness_errors.append(
                    {'scenario': v['scenario'], 'replay': path,
                     'why': 'violation not reproduced by replayer: ' + why})
        cov = {
            'states': max(1, self.stats['states']),
            'transitions': max(1, self.stats['transitions']),
            'traces_validated_against_impl': self.stats['traces_validated'],
            'samples': self.samples or [{'note': 'no complete execution '
                                         'sampled'}],
            'exhaustive': bool(self.exhaustive and not self.harness_errors),
            'scenarios': self.scenarios,
            'executions_to_quiescence': self.stats['executions'],
            'rule': rule,
            'counters': {k: v for k, v in self.stats.items()},
            'by_scenario_class': {k: dict(v)
                                  for k, v in self.by_class.items()},
            'known_findings_hit': sorted(set(self.known_hits)),
            'harness_errors': self.harness_errors[:10],
        }
        cov.update(self.extra)
        ev = {
            'property_id': self.prop, 'tier': self.tier, 'seed': seed(),
            'level': self.level, 'coverage': cov,
            'assumptions': self.assumptions,
            'wall_s': round(time.time() - self.t0, 1),
            'violations': len(unknown),
        }
        os.makedirs(EVID, exist_ok=True)
        tmp = os.path.join(EVID, '.%s.json.tmp' % self.prop)
        with open(tmp, 'w') as f:
            json.dump(ev, f, indent=1, default=str)
        os.replace(tmp, os.path.join(EVID, '%s.json' % self.prop))
        for v, path in unknown:
            print('VIOLATION property=%s replay=%s' % (self.prop, path))
            print('  scenario=%s' % v['scenario'])
            print('  %s' % v['message'][:600])
        if self.harness_errors:
            print('HARNESS-NOTE property=%s %d harness diagnostics '
                  '(see evidence)' % (self.prop, len(self.harness_errors)),
                  file=sys.stderr)
        summary = ('%s %s: scenarios=%d states=%d transitions=%d '
                   'executions=%d exhaustive=%s wall=%.0fs violations=%d'
                   % (self.prop, self.tier, self.scenarios,
                      self.stats['states'], self.stats['transitions'],
                      self.stats['executions'], cov['exhaustive'],
                      time.time() - self.t0, len(unknown)))
        print(summary)
        return 1 if unknown else 0


def start_confirm(prop, path):
    """Re-run the recorded schedule with the plain replayer in a fresh
    process."""
    return subprocess.Popen(
        [sys.executable, '-m', 'checks.run', prop, '--replay', path,
         '--quiet'], cwd=ROOT, stdout=subprocess.PIPE,
        stderr=subprocess.PIPE, text=True)


def finish_confirm(p):
    try:
        out, err = p.communicate(timeout=600)
    except subprocess.TimeoutExpired:
        p.kill()
        return False, 'replay timed out'
    if p.returncode == 1 and 'REPLAY-VIOLATION' in out:
        return True, ''
    return False, (out[-400:] + err[-400:])


def build_scenario(spec):
    mod, cls, kwargs = spec
    m = importlib.import_module(mod)
    return getattr(m, cls)(**kwargs)


def variant(scn, suffix, **changes):
    """The same scenario with some constructor arguments changed."""
    mod, cls, kw = scn.spec()
    kw = dict(kw)
    kw.update(changes)
    kw['name'] = scn.name + suffix
    return build_scenario((mod, cls, kw))


def run_replay(prop, path, quiet=False):
    doc = json.load(open(path))
    if 'doc' in doc and 'spec' not in doc:
        mod = importlib.import_module('checks.%s' % prop.lower())
        bad, msg = mod.replay(doc['doc'])
        if bad:
            print('REPLAY-VIOLATION property=%s' % prop)
            print('  ', str(msg)[:800])
            return 1
        print('REPLAY-OK (no violation)')
        return 0
    from mc import explore
    scn = build_scenario(doc['spec'])
    if 'choices_b' in doc:
        # differential violation: two schedules (or two configurations) of
        # the same scenario must end with the same outcome
        ra = explore.replay(scn, doc['choices'])
        scn_b = build_scenario(doc.get('spec_b') or doc['spec'])
        rb = explore.replay(scn_b, doc['choices_b'])
        if ra['diverged'] or rb['diverged']:
            print('REPLAY-DIVERGED %s' % (ra['diverged'] or rb['diverged']))
            return 2
        if ra['outcome'] != rb['outcome']:
            print('REPLAY-VIOLATION property=%s' % prop)
            print('   outcome A: %s' % str(ra['outcome'])[:700])
            print('   outcome B: %s' % str(rb['outcome'])[:700])
            return 1
        print('REPLAY-OK (same outcome)')
        return 0
    r = explore.replay(scn, doc['choices'])
    if not quiet:
        for s in r['steps']:
            print('  ', s)
    if r['diverged']:
        print('REPLAY-DIVERGED %s' % r['diverged'])
        return 2
    if r['violations']:
        print('REPLAY-VIOLATION property=%s' % prop)
        for v in r['violations']:
            print('  ', v[:600])
        return 1
    print('REPLAY-OK (no violation)')
    return 0


# ---------------------------------------------------------------------------
# Sequential explorers (OpMC / InputMC): exhaustive enumeration of operation
# sequences or inputs against a reference model; no interleavings.
class SimpleReport(object):
    """Evidence + verdict for checks that enumerate cases themselves.

    rep = SimpleReport('C19', tier, level='exploration')
    rep.case(key, nontrivial=True)          # one evaluated case
    rep.state(h); rep.transition()          # for OpMC (model_checking level)
    rep.sample(obj)
    rep.violation(case_id, message, doc)    # doc: what `replay(doc)` needs
    sys.exit(rep.finish(rule, exhaustive=True))
    """

    def __init__(self, prop, tier, level='exploration'):
        self.prop, self.tier, self.level = prop, tier, level
        self.t0 = time.time()
        self.evaluations = 0
        self.distinct = set()
        self.states = set()
        self.transitions = 0
        self.validated = 0
        self.samples = []
        self.viol = []
        self.assumptions = []
        self.extra = {}
        self.counters = collections.Counter()

    def case(self, key=None, nontrivial=True):
        self.evaluations += 1
        if key is not None and nontrivial:
            self.distinct.add(key if isinstance(key, (str, bytes, int))
                              else json.dumps(key, sort_keys=True,
                                              default=str))

    def state(self, h):
        self.states.add(h)

    def transition(self, n=1):
        self.transitions += n

    def sample(self, obj, limit=5):
        if len(self.samples) < limit:
            self.samples.append(obj)

    def violation(self, case_id, message, doc):
        self.viol.append({'scenario': case_id, 'message': message,
                          'doc': doc})

    def finish(self, rule, exhaustive=False, confirm=True):
        known = load_known(self.prop)
        os.makedirs(REPLAYS, exist_ok=True)
        for f in os.listdir(REPLAYS):
            if f.startswith(self.prop + '-'):
                os.unlink(os.path.join(REPLAYS, f))
        unknown, known_hits, harness = [], [], []
        seen_known = set()
        cands = []
        for v in self.viol:
            k = match_known(known, v)
            if k is not None:
                known_hits.append(k['what'])
                if k['what'] in seen_known:
                    continue
                seen_known.add(k['what'])
            cands.append((v, k))
        max_confirm = int(os.environ.get('VERIF_MAX_CONFIRM', '6'))
        # unknown violations first
        cands.sort(key=lambda x: x[1] is not None)
        todo = []
        for n, (v, k) in enumerate(cands[:max_confirm + len(seen_known)], 1):
            path = os.path.join(REPLAYS, '%s-%d.json' % (self.prop, n))
            doc = {'property': self.prop, 'scenario': v['scenario'],
                   'assertion': v['message'], 'doc': v['doc']}
            with open(path, 'w') as f:
                json.dump(doc, f, indent=1, default=str)
            todo.append((v, k, path,
                         start_confirm(self.prop, path) if confirm else None))
        for v, k, path, pr in todo:
            if pr is not None:
                ok, why = finish_confirm(pr)
                if not ok:
                    harness.append({'scenario': v['scenario'], 'replay': path,
                                    'why': 'not reproduced by replay: ' + why})
                    continue
            if k is not None:
                print('KNOWN-FINDING: property=%s %s' % (self.prop, k['what']))
                continue
            unknown.append((v, path))
        cov = {
            'evaluations': max(self.evaluations, 1),
            'distinct_nontrivial': len(self.distinct),
            'rule': rule,
            'samples': self.samples or [{'note': 'none'}],
            'exhaustive': bool(exhaustive and not harness),
            'counters': dict(self.counters),
            'violating_cases': len(self.viol),
            'violations_not_replayed': max(0, len(cands) - len(todo)),
            'known_findings_hit': sorted(set(known_hits)),
            'harness_errors': harness[:10],
        }
        if self.level == 'model_checking':
            cov['states'] = max(1, len(self.states))
            cov['transitions'] = max(1, self.transitions)
            cov['traces_validated_against_impl'] = self.validated
        cov.update(self.extra)
        ev = {'property_id': self.prop, 'tier': self.tier, 'seed': seed(),
              'level': self.level, 'coverage': cov,
              'assumptions': self.assumptions,
              'wall_s': round(time.time() - self.t0, 1),
              'violations': len(unknown)}
        os.makedirs(EVID, exist_ok=True)
        tmp = os.path.join(EVID, '.%s.json.tmp' % self.prop)
        with open(tmp, 'w') as f:
            json.dump(ev, f, indent=1, default=str)
        os.replace(tmp, os.path.join(EVID, '%s.json' % self.prop))
        for v, path in unknown:
            print('VIOLATION property=%s replay=%s' % (self.prop, path))
            print('  case=%s' % v['scenario'])
            print('  %s' % v['message'][:600])
        if harness:
            print('HARNESS-NOTE property=%s %d diagnostics (see evidence)'
                  % (self.prop, len(harness)), file=sys.stderr)
        print('%s %s: evaluations=%d distinct=%d states=%d transitions=%d '
              'exhaustive=%s wall=%.0fs violations=%d' % (
                  self.prop, self.tier, self.evaluations, len(self.distinct),
                  len(self.states), self.transitions, cov['exhaustive'],
                  time.time() - self.t0, len(unknown)))
        return 1 if unknown else 0
