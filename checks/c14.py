"""C14 - definition validation is total, accepted definitions are stable and
runnable.  InputMC: exhaustive enumeration of every single-node mutation
(thorough: plus pairs on small seeds) of every seed definition, a fixed
catalogue of raw texts, all through the real entry points
(get_*_spec_from_yaml, POST /v2/{workflows,workbooks,actions}[/validate]).

Oracles (nothing beyond the property statement):
  T  totality: the direct parser call either returns or raises a
     DSLParsingException (InvalidModelException, grammar exceptions ...);
     the REST calls answer 2xx/4xx; validate says valid iff the parser
     accepted; nothing is stored for a rejected text; 5 s watchdog.
  S  stability: for every accepted text the spec rebuilt from its own stored
     form (json of to_dict() right after parsing, of to_dict() after the spec
     was used, of the rebuilt spec's to_dict(), and the rows the create call
     wrote) has the same structure (tasks, clauses incl. task-defaults,
     policies, inputs, publish) as the fresh spec; the `definition` text kept
     for every member of a workbook / multi-workflow file re-parses to that
     member.
  R1 accepted => no directly expression-bearing field holds an expression
     the yaql / jinja2 libraries cannot parse (independent walker).
  R3 anchors and aliases are plain text for the loader.
  G  every generator-produced and bundled definition is accepted, and the
     run of a generated program is the same with spec caches evicted before
     every step as with warm caches.
"""
import collections
import json
import os
import pickle
import re
import shutil
import signal
import sys
import time
import traceback

from mc import env
from mc import c14_mut as M
from mc import wfscn
from checks import common

import jsonschema
import yaml
from oslo_config import cfg
from mistral import exceptions as mexc
from mistral.lang import parser as sp
from mistral.utils import safe_yaml
from mistral.workflow import states

PROP = 'C14'
TREE = env.TREE
SOFT_S = 5.0            # the watchdog of the design
HARD_EXTRA_S = 20.0     # parent kills a worker stuck in C code after this

# ---------------------------------------------------------------- seam
# jsonschema.validate() re-validates the (static, per spec class) schema
# against the metaschema on every call: ~0.25 s per spec object.  Memoised per
# schema object after its first successful check; instance validation is
# untouched.
_V = jsonschema.validators.validator_for({})
_orig_check_schema = _V.check_schema.__func__
_checked = {}


def _check_schema(cls, schema, *a, **kw):
    k = id(schema)
    if _checked.get(k) is schema:
        return
    _orig_check_schema(cls, schema, *a, **kw)
    _checked[k] = schema


_V.check_schema = classmethod(_check_schema)

PARSERS = {
    'wf': lambda text: sp.get_workflow_list_spec_from_yaml(text,
                                                           validate=True),
    'wb': lambda text: sp.get_workbook_spec_from_yaml(text, validate=True),
    'act': lambda text: sp.get_action_list_spec_from_yaml(text,
                                                          validate=True),
}
URLS = {'wf': '/v2/workflows', 'wb': '/v2/workbooks', 'act': '/v2/actions'}
HEADERS = {'X-Project-Id': '<default-project>', 'X-User-Id': '1',
           'X-Roles': 'member', 'Content-Type': 'text/plain'}

_APP = []


def app():
    if not _APP:
        import pecan.testing
        from mistral.api import app as pecan_app
        cfg.CONF.set_override('enabled', False, group='cron_trigger')
        _APP.append(pecan.testing.load_test_app(
            dict(pecan_app.get_pecan_config())))
    return _APP[0]


# ---------------------------------------------------------------- watchdog
class Hang(BaseException):
    pass


def _on_alarm(signum, frame):
    raise Hang()


def guarded(fn, secs):
    # CPU seconds of this process (ITIMER_PROF), so that a loaded machine
    # cannot turn a slow run into a 'hang'; the parent additionally enforces
    # a generous wall-clock limit per job (pool_map)
    signal.signal(signal.SIGPROF, _on_alarm)
    signal.setitimer(signal.ITIMER_PROF, secs)
    try:
        return fn()
    finally:
        signal.setitimer(signal.ITIMER_PROF, 0)


def budget_for(text):
    # 5 s for ordinary inputs; the multi-thousand-line bundled files get
    # time proportional to their size
    return SOFT_S + 0.02 * text.count('\n')


# ---------------------------------------------------------------- helpers
_MISTRAL_DIR = os.path.join(os.path.realpath(TREE), 'mistral') + os.sep


def crash_site(e):
    """innermost frame of the tree under test: 'rel/path.py:qualname'."""
    site, line = 'outside-mistral', 0
    tb = e.__traceback__
    while tb is not None:
        code = tb.tb_frame.f_code
        fn = os.path.realpath(code.co_filename)
        if fn.startswith(_MISTRAL_DIR) and '/tests/' not in fn:
            site = '%s:%s' % (os.path.relpath(fn, os.path.realpath(TREE)),
                              getattr(code, 'co_qualname', code.co_name))
            line = tb.tb_lineno
        tb = tb.tb_next
    return site, line


def norm_msg(e):
    """Stable digest of an exception message: first line, the part before
    the first ': ' / ' [', quoted parts and numbers blanked."""
    s = str(e).split('\n')[0]
    s = re.split(r': | \[', s)[0]
    s = re.sub(r"'[^']*'", "'_'", s)
    s = re.sub(r'"[^"]*"', '"_"', s)
    s = re.sub(r'\d+', 'N', s)
    return s[:60]


def _jkeys(x):
    """Mapping keys as a JSON column stores them (7 -> '7', true, null)."""
    if isinstance(x, dict):
        out = {}
        for k, v in x.items():
            if not isinstance(k, str):
                try:
                    k = json.dumps(k)
                except (TypeError, ValueError):
                    k = repr(k)
            out[k] = _jkeys(v)
        return out
    if isinstance(x, (list, tuple)):
        return [_jkeys(v) for v in x]
    return x


def jcanon(x):
    return json.dumps(_jkeys(x), sort_keys=True, default=repr)


class NotJson(Exception):
    pass


def jround(d):
    """The stored form: what a JSON column gives back."""
    try:
        return json.loads(json.dumps(d))
    except (TypeError, ValueError) as e:
        raise NotJson(str(e))


def reset_db():
    env.raw_conn().deserialize(env.SNAP0)
    sp.clear_caches()
    env.Ids.n = 1000


# ---------------------------------------------------------------- views
def v_publish(p):
    if p is None:
        return None
    return {'branch': p.get_branch(), 'global': p.get_global(),
            'atomic': p.get_atomic()}


def v_clause(c):
    if c is None:
        return None
    return {'next': [list(t) for t in c.get_next()],
            'publish': v_publish(c.get_publish())}


def v_policies(p):
    if p is None:
        return None
    r = p.get_retry()
    return {
        'retry': None if r is None else {
            'count': r.get_count(), 'delay': r.get_delay(),
            'break-on': r.get_break_on(),
            'continue-on': r.get_continue_on()},
        'wait-before': p.get_wait_before(), 'wait-after': p.get_wait_after(),
        'timeout': p.get_timeout(), 'pause-before': p.get_pause_before(),
        'concurrency': p.get_concurrency(), 'fail-on': p.get_fail_on()}


def v_task(t, wf):
    d = {
        'name': t.get_name(), 'description': t.get_description(),
        'type': t.get_type(), 'action': t.get_action_name(),
        'workflow': t.get_workflow_name(), 'input': t.get_input(),
        'with-items': t.get_with_items(), 'target': t.get_target(),
        'keep-result': t.get_keep_result(),
        'safe-rerun': t.get_safe_rerun(),
        'policies': v_policies(t.get_policies()),
    }
    if hasattr(t, 'get_join'):
        n = t.get_name()
        d['join'] = t.get_join()
        d['on-success'] = v_clause(t.get_on_success())
        d['on-error'] = v_clause(t.get_on_error())
        d['on-complete'] = v_clause(t.get_on_complete())
        d['on-skip'] = v_clause(t.get_on_skip())
        # effective transitions (task-defaults applied)
        d['eff-success'] = [list(x) for x in wf.get_on_success_clause(n)]
        d['eff-error'] = [list(x) for x in wf.get_on_error_clause(n)]
        d['eff-complete'] = [list(x) for x in wf.get_on_complete_clause(n)]
        d['eff-skip'] = [list(x) for x in wf.get_on_skip_clause(n)]
    else:
        d['requires'] = sorted(t.get_requires())
        d['eff-requires'] = sorted(wf.get_task_requires(t))
    # publish last: computing it merges clause level publish into the
    # spec's own dicts
    d['publish'] = {st: v_publish(t.get_publish(st))
                    for st in (states.SUCCESS, states.ERROR, states.SKIPPED)}
    return d


def v_defaults(td):
    if td is None:
        return None
    return {'policies': v_policies(td.get_policies()),
            'on-success': v_clause(td.get_on_success()),
            'on-error': v_clause(td.get_on_error()),
            'on-complete': v_clause(td.get_on_complete()),
            'on-skip': v_clause(td.get_on_skip()),
            'safe-rerun': td.get_safe_rerun(),
            'requires': td.get_requires()}


def v_wf(wf):
    return {
        'name': wf.get_name(), 'description': wf.get_description(),
        'tags': wf.get_tags(), 'type': wf.get_type(),
        'input': wf.get_input(), 'output': wf.get_output(),
        'output-on-error': wf.get_output_on_error(), 'vars': wf.get_vars(),
        'task-defaults': v_defaults(wf.get_task_defaults()),
        'tasks': {str(t.get_name()): v_task(t, wf) for t in wf.get_tasks()},
        'n_tasks': len(wf.get_tasks()),
    }


def v_action(a):
    return {'name': a.get_name(), 'description': a.get_description(),
            'tags': a.get_tags(), 'base': a.get_base(),
            'base-input': a.get_base_input(), 'input': a.get_input(),
            'output': a.get_output()}


def v_wb(wb):
    wfs, acts = wb.get_workflows(), wb.get_actions()
    return {'name': wb.get_name(), 'description': wb.get_description(),
            'tags': wb.get_tags(),
            'workflows': None if wfs is None else {
                str(w.get_name()): v_wf(w) for w in wfs},
            'actions': None if acts is None else {
                str(a.get_name()): v_action(a) for a in acts}}


def first_diff(a, b, path=''):
    """Path of the first structural difference (names kept)."""
    if type(a) is not type(b):
        return path or '.'
    if isinstance(a, dict):
        for k in sorted(set(a) | set(b), key=str):
            if k not in a or k not in b:
                return '%s/%s' % (path, k)
            d = first_diff(a[k], b[k], '%s/%s' % (path, k))
            if d:
                return d
        return None
    if isinstance(a, list):
        if len(a) != len(b):
            return path + '/len'
        for i, (x, y) in enumerate(zip(a, b)):
            d = first_diff(x, y, '%s/%d' % (path, i))
            if d:
                return d
        return None
    return None if jcanon(a) == jcanon(b) else (path or '.')


def generalise(path):
    """tasks/<name>/input/x -> tasks/*/input : stable group id."""
    parts = [p for p in (path or '').split('/') if p]
    out = []
    skip = False
    last_star = -1
    for i, p in enumerate(parts):
        if skip:
            out.append('*')
            last_star = len(out) - 1
            skip = False
            continue
        out.append(p)
        if p in ('tasks', 'workflows', 'actions'):
            skip = True
    # one field below the last member name
    return '/'.join(out[:last_star + 2] if last_star >= 0 else out[:1])


def members(kind, spec):
    """[(member kind, name, member spec)] of a parsed document."""
    out = []
    if kind == 'wf':
        out = [('wf', w.get_name(), w) for w in spec.get_workflows()]
    elif kind == 'act':
        out = [('act', a.get_name(), a) for a in spec.get_actions()]
    else:
        for w in (spec.get_workflows() or []):
            out.append(('wf', w.get_name(), w))
        for a in (spec.get_actions() or []):
            out.append(('act', a.get_name(), a))
    return out


def m_view(mk, m):
    return v_wf(m) if mk == 'wf' else v_action(m)


def m_build(mk, d):
    return sp.get_workflow_spec(d) if mk == 'wf' else sp.get_action_spec(d)


# ---------------------------------------------------------------- evaluation
class Case(object):
    def __init__(self, kind, text):
        self.kind, self.text = kind, text
        self.problems = []      # (group, detail)
        self.facts = collections.Counter()
        self.outcome = None
        self.cls = None

    def problem(self, group, detail):
        self.problems.append((group, detail))

    def crash(self, entry, e):
        if isinstance(e, Hang):
            self.problem('hang/%s' % entry,
                         '%s did not return within %.0f s'
                         % (entry, budget_for(self.text)))
            return
        site, line = crash_site(e)
        self.problem(
            'crash/%s/%s/%s' % (type(e).__name__, site, norm_msg(e)),
            '%s failed with undeclared %s at %s line %d: %s'
            % (entry, type(e).__name__, site, line, str(e)[:200]))


def call_direct(c):
    """-> spec or None; sets outcome."""
    try:
        spec = guarded(lambda: PARSERS[c.kind](c.text), budget_for(c.text))
        c.outcome = 'accept' if spec is not None else 'accept-none'
        return spec
    except mexc.DSLParsingException as e:
        c.outcome, c.cls = 'reject', type(e).__name__
    except Hang as e:
        c.outcome = 'hang'
        c.crash('parse', e)
    except Exception as e:      # noqa
        c.outcome, c.cls = 'crash', type(e).__name__
        c.crash('parse', e)
    return None


def call_rest(c, suffix):
    """-> (status or None, body text)."""
    url = URLS[c.kind] + suffix
    entry = 'POST ' + url
    body = c.text.encode('utf-8')
    try:
        r = guarded(lambda: app().post(url, body, headers=HEADERS,
                                       expect_errors=True),
                    budget_for(c.text))
    except (Hang, Exception) as e:      # noqa
        c.crash(entry, e)
        try:
            from mistral import context as auth_context
            auth_context.set_ctx(None)
        except Exception:       # noqa
            pass
        return None, ''
    if r.status_int >= 500:
        c.problem('http5xx/%s/%d' % (entry, r.status_int),
                  '%s answered %d: %s' % (entry, r.status_int, r.text[:200]))
    return r.status_int, r.text


def rows(table):
    cur = env.raw_conn().cursor()
    cur.execute('select name, spec, definition from %s order by created_at, '
                'name' % table)
    return [(n, json.loads(s) if s else None, d) for n, s, d in cur.fetchall()]


def compare(c, what, ref_view, mk, build):
    """build() -> spec in stored form; compared with the fresh view."""
    try:
        v = m_view(mk, build())
    except SliceError as e:
        c.problem('unstable/%s/%s/%s' % (what, mk, e.reason),
                  '%s: the definition text kept for the %s is not the %s '
                  'written in the submitted document: %s'
                  % (what, mk, mk, e))
        return
    except Exception as e:      # noqa
        site, _ = crash_site(e)
        c.problem('unstable/%s/%s-fails/%s' % (what, mk, type(e).__name__),
                  '%s: rebuilding the %s from its stored form failed with '
                  '%s at %s: %s' % (what, mk, type(e).__name__, site,
                                    str(e)[:200]))
        return
    c.facts['roundtrips'] += 1
    if jcanon(v) != jcanon(ref_view):
        d = first_diff(ref_view, v)
        c.problem('unstable/%s/%s/%s' % (what, mk, generalise(d)),
                  '%s: %s rebuilt from its stored form differs from the '
                  'accepted one at %s: fresh=%s stored=%s'
                  % (what, mk, d, _at(ref_view, d), _at(v, d)))


def _at(v, path):
    for p in [x for x in (path or '').split('/') if x]:
        if isinstance(v, dict):
            v = v.get(p, v.get(_unstr(p, v), '<absent>'))
        elif isinstance(v, list):
            try:
                v = v[int(p)]
            except (ValueError, IndexError):
                return '<absent>'
        else:
            break
    return jcanon(v)[:160]


def _unstr(p, d):
    for k in d:
        if str(k) == p:
            return k
    return p


def check_stability(c, spec):
    """S for an accepted text (direct part): to_dict round trips."""
    ms = members(c.kind, spec)
    # the stored form as written at creation time: before the spec is used
    d_fresh = [jround(m.to_dict()) for _, _, m in ms]
    wb_fresh = jround(spec.to_dict()) if c.kind == 'wb' else None
    views = []
    for mk, name, m in ms:
        try:
            views.append(m_view(mk, m))
        except Exception as e:      # noqa
            site, line = crash_site(e)
            c.problem('unusable/%s/%s/%s' % (mk, type(e).__name__, site),
                      'accepted %s %r cannot be inspected through its own '
                      'accessors: %s at %s line %d: %s'
                      % (mk, name, type(e).__name__, site, line,
                         str(e)[:200]))
            views.append(None)
    wb_view = None
    if c.kind == 'wb' and all(v is not None for v in views):
        try:
            wb_view = v_wb(spec)
        except Exception as e:  # noqa
            c.problem('unusable/wb/%s' % type(e).__name__, str(e)[:200])
    for (mk, name, m), d0, v in zip(ms, d_fresh, views):
        if v is None:
            continue
        # 1. stored right after parsing
        holder = []

        def b1(d0=d0, mk=mk):
            holder.append(m_build(mk, d0))
            return holder[0]
        compare(c, 'to_dict', v, mk, b1)
        # 2. stored after the spec object was used (execution specs are
        #    written from cached, used spec objects)
        d_used = jround(m.to_dict())
        compare(c, 'to_dict-after-use', v, mk,
                lambda d=d_used, mk=mk: m_build(mk, d))
        # 3. second generation
        if holder:
            d2 = jround(holder[0].to_dict())
            compare(c, 'to_dict-twice', v, mk,
                    lambda d=d2, mk=mk: m_build(mk, d))
    for (mk, name, m), d0, v in zip(ms, d_fresh, views):
        if v is not None and mk == 'wf':
            check_accessor_order(c, name, d0)
    if wb_view is not None:
        def bwb():
            s = sp.get_workbook_spec(wb_fresh, validate=False)
            return s
        try:
            v2 = v_wb(bwb())
            c.facts['roundtrips'] += 1
            if jcanon(v2) != jcanon(wb_view):
                d = first_diff(wb_view, v2)
                c.problem('unstable/to_dict/wb/%s' % generalise(d),
                          'workbook rebuilt from its stored form differs at '
                          '%s: fresh=%s stored=%s'
                          % (d, _at(wb_view, d), _at(v2, d)))
        except Exception as e:  # noqa
            c.problem('unstable/to_dict/wb-fails/%s' % type(e).__name__,
                      'rebuilding the workbook from its stored form failed: '
                      '%s: %s' % (type(e).__name__, str(e)[:200]))
    return ms, views, wb_view


TASK_ACCESSORS = [
    ('publish[SUCCESS]', lambda t: v_publish(t.get_publish(states.SUCCESS))),
    ('publish[ERROR]', lambda t: v_publish(t.get_publish(states.ERROR))),
    ('publish[SKIPPED]', lambda t: v_publish(t.get_publish(states.SKIPPED))),
    ('on-success', lambda t: v_clause(t.get_on_success())),
    ('on-error', lambda t: v_clause(t.get_on_error())),
    ('on-complete', lambda t: v_clause(t.get_on_complete())),
    ('on-skip', lambda t: v_clause(t.get_on_skip())),
]


def check_accessor_order(c, name, d0):
    """Spec objects are cached and shared by every run of a definition:
    what one accessor returns must not depend on which accessor was called
    before (operation sequences of length 2 over the task accessors the
    engine uses, against a fresh object), and using the object must not
    change what it stores.  Only tasks that publish can be affected."""
    try:
        wf0 = sp.get_workflow_spec(json.loads(json.dumps(d0)))
    except Exception:      # noqa
        return
    if wf0.get_type() == 'reverse':
        return
    names = [t.get_name() for t in wf0.get_tasks()
             if 'publish' in json.dumps(t.to_dict(), default=str)]
    for tn in names[:4]:
        base = {}
        for an, acc in TASK_ACCESSORS:
            wf = sp.get_workflow_spec(json.loads(json.dumps(d0)))
            try:
                base[an] = jcanon(acc(wf.get_tasks()[tn]))
            except Exception:      # noqa
                base[an] = None
        for a1, acc1 in TASK_ACCESSORS[:3]:
            wf = sp.get_workflow_spec(json.loads(json.dumps(d0)))
            t = wf.get_tasks()[tn]
            try:
                acc1(t)
            except Exception:      # noqa
                continue
            for a2, acc2 in TASK_ACCESSORS:
                if base[a2] is None:
                    continue
                c.facts['accessor_pairs'] += 1
                try:
                    r = jcanon(acc2(t))
                except Exception:      # noqa
                    continue
                if r != base[a2]:
                    c.problem(
                        'unstable/accessor-order/%s-after-%s' % (a2, a1),
                        'task %r of workflow %r: %s evaluated after %s on '
                        'the same (cached) specification object gives %s, '
                        'on a fresh object %s: using a specification '
                        'changes it' % (tn, name, a2, a1, r[:300],
                                        base[a2][:300]))
                    return


def check_stored(c, ms, views, wb_view):
    """S for the rows written by the create call."""
    by = {(mk, str(n)): v for (mk, n, _), v in zip(ms, views)}
    if c.kind == 'wf':
        got = rows('workflow_definitions_v2')
        if sorted(str(n) for n, _, _ in got) != sorted(
                str(n) for _, n, _ in ms):
            c.problem('stored/wf/member-set',
                      'stored workflows %s != workflows of the definition %s'
                      % (sorted(str(n) for n, _, _ in got),
                         sorted(str(n) for _, n, _ in ms)))
            return
        for name, spec_d, definition in got:
            v = by.get(('wf', str(name)))
            if v is None:
                continue
            compare(c, 'db-spec', v, 'wf',
                    lambda d=spec_d: sp.get_workflow_spec(d))
            compare(c, 'db-definition' if len(got) == 1
                    else 'db-definition-cut', v, 'wf',
                    lambda t=definition, n=name: _one_wf(t, n))
    elif c.kind == 'act':
        got = rows('action_definitions_v2')
        for name, spec_d, definition in got:
            v = by.get(('act', str(name)))
            if v is None:
                continue
            compare(c, 'db-spec', v, 'act',
                    lambda d=spec_d: sp.get_action_spec(d))
            compare(c, 'db-definition', v, 'act',
                    lambda t=definition, n=name: _one_act(t, n))
    else:
        wbs = rows('workbooks_v2')
        if len(wbs) != 1:
            c.problem('stored/wb/count', '%d workbook rows' % len(wbs))
            return
        wb_name, wb_spec, _ = wbs[0]
        if wb_view is not None:
            try:
                v2 = v_wb(sp.get_workbook_spec(wb_spec, validate=False))
                c.facts['roundtrips'] += 1
                if jcanon(v2) != jcanon(wb_view):
                    d = first_diff(wb_view, v2)
                    c.problem('unstable/db-spec/wb/%s' % generalise(d),
                              'stored workbook differs at %s: fresh=%s '
                              'stored=%s' % (d, _at(wb_view, d), _at(v2, d)))
            except Exception as e:      # noqa
                c.problem('unstable/db-spec/wb-fails/%s' % type(e).__name__,
                          str(e)[:200])
        pref = '%s.' % wb_name
        for table, mk in (('workflow_definitions_v2', 'wf'),
                          ('action_definitions_v2', 'act')):
            got = rows(table)
            want = sorted(str(n) for k, n, _ in ms if k == mk)
            have = sorted(str(n)[len(pref):] for n, _, _ in got)
            if want != have:
                c.problem('stored/wb/%s-member-set' % mk,
                          'stored %s members %s != members written in the '
                          'workbook %s' % (mk, have, want))
                continue
            for name, spec_d, definition in got:
                short = str(name)[len(pref):]
                v = by.get((mk, short))
                if v is None:
                    continue
                compare(c, 'db-spec', v, mk,
                        lambda d=spec_d, mk=mk: m_build(mk, d))
                compare(c, 'wb-definition-cut', v, mk,
                        lambda t=definition, n=short, mk=mk:
                        _member_from_cut(t, n, mk))


class SliceError(Exception):
    def __init__(self, reason, msg):
        Exception.__init__(self, msg)
        self.reason = reason


def _one_wf(text, name):
    ls = sp.get_workflow_list_spec_from_yaml(text, validate=True)
    for w in ls.get_workflows():
        if str(w.get_name()) == str(name):
            return w
    raise SliceError('slice-lacks-member',
                     'definition text has no workflow %r' % (name,))


def _one_act(text, name):
    ls = sp.get_action_list_spec_from_yaml(text, validate=True)
    for a in ls.get_actions():
        if str(a.get_name()) == str(name):
            return a
    raise SliceError('slice-lacks-member',
                     'definition text has no action %r' % (name,))


def _member_from_cut(text, name, mk):
    """The text slice kept for a workbook member is `<name>:` + its body."""
    try:
        d = sp.parse_yaml(text)
    except mexc.DSLParsingException as e:
        raise SliceError('slice-unparsable', 'the slice is not YAML: %s'
                         % str(e)[:120])
    if not d:
        raise SliceError('slice-empty', 'the slice is empty: %r' % text[:60])
    if not isinstance(d, dict) or [str(k) for k in d] != [str(name)]:
        raise SliceError(
            'slice-wrong-keys',
            'the slice does not hold exactly the member %r: keys=%s'
            % (name, list(d)[:5] if isinstance(d, dict)
               else type(d).__name__))
    body = list(d.values())[0]
    if not isinstance(body, dict):
        raise SliceError('slice-body-not-a-mapping',
                         'the slice body of %r is %s: %r'
                         % (name, type(body).__name__, text[:80]))
    key = list(d.keys())[0]
    try:
        if mk == 'wf':
            ls = sp.get_workflow_list_spec({'version': '2.0', key: body},
                                           True)
            return ls.get_workflows()[0]
        ls = sp.get_action_list_spec({'version': '2.0', key: body}, True)
        return ls.get_actions()[0]
    except mexc.DSLParsingException as e:
        raise SliceError('slice-invalid-definition',
                         'the slice %r... is not a valid %s definition: %s'
                         % (text[:60], mk, str(e).split('\n')[0][:120]))
    except Exception:       # noqa
        # validation itself fails on this member (reported by the totality
        # oracle where it applies): compare without validating
        body['name'] = key
        body['version'] = '2.0'
        return m_build(mk, body)


def evaluate(kind, text, expected=None, expect=None, rest=True):
    """Runs one case through all entry points; returns the Case."""
    c = Case(kind, text)
    reset_db()
    spec = call_direct(c)
    accepted = c.outcome == 'accept'
    if expect == 'accept' and c.outcome == 'reject':
        c.problem('seed-rejected/%s' % c.cls,
                  'a generator-produced / bundled definition is rejected')
    # R3: literal anchors
    if expected is not None:
        try:
            got = safe_yaml.load(text)
            if jcanon(got) != jcanon(expected[0]):
                if expected[1]:
                    c.problem('loader/anchor-or-alias-interpreted',
                              'the loader did not treat & / * as plain '
                              'text: loaded=%s expected=%s'
                              % (jcanon(got)[:200],
                                 jcanon(expected[0])[:200]))
                else:
                    c.facts['render_mismatch'] += 1
        except yaml.YAMLError:
            pass
        except Exception:   # noqa
            pass
    if accepted:
        # R1
        try:
            doc = safe_yaml.load(text)
            for field, why in M.malformed_fields(kind, doc):
                c.problem('accepted-malformed-expression/%s' % field,
                          'accepted although %s holds an expression that '
                          'does not parse: %s' % (field, why))
            c.facts['expr_fields'] += len(M.expr_fields(kind, doc))
        except yaml.YAMLError:
            pass
        try:
            ms, views, wb_view = check_stability(c, spec)
        except NotJson:
            # the accepted document holds values JSON cannot store (dates,
            # bytes): the create call below shows what the service does
            c.facts['accepted_not_json'] += 1
            ms = None
    if rest:
        st, body = call_rest(c, '/validate')
        if st is not None and st < 500:
            valid = None
            try:
                valid = json.loads(body).get('valid')
            except Exception:   # noqa
                pass
            if st != 200 or not isinstance(valid, bool):
                if st >= 400:
                    c.facts['validate_4xx'] += 1
                else:
                    c.problem('validate/odd-answer/%s' % st,
                              'validate answered %s %s' % (st, body[:100]))
            elif c.outcome in ('accept', 'accept-none', 'reject') and \
                    valid != (c.outcome != 'reject'):
                c.problem('validate/disagrees-with-parser',
                          'validate says valid=%s, the parser %ss'
                          % (valid, c.outcome))
        reset_db()
        st, body = call_rest(c, '')
        if st is not None and st < 500:
            if 200 <= st < 300:
                c.facts['created'] += 1
                if c.outcome == 'reject':
                    c.problem('create/stored-although-rejected',
                              'create answered %d for a text validation '
                              'rejects (%s)' % (st, c.cls))
                elif accepted and ms is not None:
                    try:
                        check_stored(c, ms, views, wb_view)
                    except Exception as e:      # noqa
                        c.problem('harness/check_stored/%s'
                                  % type(e).__name__,
                                  traceback.format_exc()[-300:])
            elif 400 <= st < 500:
                if accepted:
                    c.facts['accepted_but_create_4xx'] += 1
            else:
                c.problem('create/odd-status/%d' % st, body[:100])
    return c


# ---------------------------------------------------------------- engine runs
def run_once(text, results, stored, params=None):
    """One run of workflow `wf` of the text to quiescence under one fixed
    schedule (first enabled step).

    stored=False: the engine works with the spec object of the fresh parse
                  of the submitted text (what a process that has just
                  accepted the definition holds), caches warm.
    stored=True : the engine works from the stored forms only: every cache
                  is evicted before every step (restart / eviction).
    """
    env.reset(results=results)
    env.with_ctx(lambda: env.wf_service.create_workflows(text))
    orig = sp.get_workflow_spec_by_definition_id
    if not stored:
        fresh = PARSERS['wf'](text)
        by_name = {str(w.get_name()): w for w in fresh.get_workflows()}
        cur = env.raw_conn().cursor()
        cur.execute('select id, name from workflow_definitions_v2')
        by_id = {i: by_name[str(n)] for i, n in cur.fetchall()
                 if str(n) in by_name}

        def from_fresh(wf_def_id, wf_def_updated_at):
            if wf_def_id in by_id:
                return by_id[wf_def_id]
            return orig(wf_def_id, wf_def_updated_at)
        sp.get_workflow_spec_by_definition_id = from_fresh
    try:
        env.post('start_workflow', wf_identifier='wf', wf_namespace='',
                 wf_ex_id=None, wf_input={}, description='',
                 params=dict(params or {}))
        steps = 0
        while steps < 400:
            ch = env.enabled_choices()
            if not ch:
                t = env.next_clock_event()
                if t is None or t > 3600:
                    break
                env.set_clock(t)
                continue
            if stored:
                sp.clear_caches()
            env.step(ch[0])
            steps += 1
    finally:
        sp.get_workflow_spec_by_definition_id = orig
    out = wfscn.outcome_of(env.dump_tables())
    out['errors'] = sorted(set(
        '%s:%s' % (cls, re.sub(r'[0-9a-f-]{36}', 'ID', txt)[:80])
        for (_w, cls, _m, txt) in env.W.exceptions))
    return out, steps


def evaluate_run(text, tag, params=None):
    """G: fresh spec object vs stored forms."""
    c = Case('run', text)
    keys = re.findall(r'key: (\S+)', text)
    results = {k: [tag] for k in keys}
    try:
        a, na = guarded(lambda: run_once(text, results, False, params), 60)
        b, nb = guarded(lambda: run_once(text, results, True, params), 60)
    except (Hang, Exception) as e:      # noqa
        c.crash('engine-run', e)
        return c
    finally:
        sp.get_workflow_spec_by_definition_id = _ORIG_BY_DEF
        env.reset()
    c.facts['run_steps'] += na
    c.facts['runs_compared'] += 1
    c.outcome = ','.join(sorted(set(w['state'] for w in a['wfs']))) or 'none'
    if jcanon(a) != jcanon(b):
        d = first_diff(a, b)
        c.problem('run-from-stored-form-differs/%s'
                  % re.sub(r'/\d+', '/*', d or '')[:40],
                  'the run driven from the stored forms (caches evicted '
                  'before every step) differs from the run driven by the '
                  'freshly accepted spec at %s: fresh=%s stored=%s'
                  % (d, _at(a, d), _at(b, d)))
    return c


_ORIG_BY_DEF = sp.get_workflow_spec_by_definition_id


# ---------------------------------------------------------------- jobs
_SEEDS = []
_TREES = {}


def load_seeds():
    if not _SEEDS:
        _SEEDS.extend(M.generated_seeds())
        _SEEDS.extend(M.bundled_seeds(TREE))
        for i, s in enumerate(_SEEDS):
            _TREES[i] = M.seed_tree(s)
    return _SEEDS


def job_case(job):
    """job -> (kind, text, expected, expect, rest) or None."""
    seeds = load_seeds()
    t = job[0]
    if t == 'base':
        s = seeds[job[1]]
        return s['kind'], s['text'], None, s['expect'], True
    if t == 'text':
        name, kind = job[1], job[2]
        return kind, dict(M.TEXTS)[name], None, None, True
    if t == 'pres':
        text, expect = M.presentation_case(job[1], job[2])
        return 'wb', text, None, expect, True
    if t == 'mut':
        s = seeds[job[1]]
        tree = M.apply_mutations(_TREES[job[1]], job[2])
        if tree is None:
            return None
        text = M.render(tree)
        anch = M.has_raw(tree, ('&', '*'))
        other_raw = M.has_raw(tree) and not anch
        expected = None
        if anch and not other_raw:
            expected = (M.expected_plain(tree), anch)
        return s['kind'], text, expected, None, job[3] if len(job) > 3 \
            else True
    raise ValueError(job)


def run_job(job):
    """-> compact result dict."""
    if job[0] == 'run':
        s = load_seeds()[job[1]]
        c = evaluate_run(s['text'], job[2], s.get('run_params'))
        key = M.sha('run/' + job[2], s['text'])
    else:
        jc = job_case(job)
        if jc is None:
            return {'skip': True}
        kind, text, expected, expect, rest = jc
        c = evaluate(kind, text, expected, expect, rest)
        key = M.sha(kind, text)
        if job[0] == 'mut' and len(job) > 4 and job[4] and \
                c.outcome == 'accept' and not c.problems and \
                re.search(r'^wf:', text, re.M):
            s = load_seeds()[job[1]]
            for tag in ('S', 'E'):
                c2 = evaluate_run(text, tag, s.get('run_params'))
                c.problems.extend(c2.problems)
                c.facts.update(c2.facts)
    return {'key': key, 'kind': c.kind, 'outcome': c.outcome, 'cls': c.cls,
            'problems': c.problems, 'facts': dict(c.facts),
            'len': len(c.text)}


# ---------------------------------------------------------------- pool
def _pool_worker(widx, jobs, counter, lock, cur, started, outdir):
    from mc import explore
    explore._pdeathsig()
    f = open(os.path.join(outdir, 'w%d.pkl' % widx), 'wb')
    while True:
        with lock:
            i = counter.value
            counter.value += 1
        if i >= len(jobs):
            break
        started[widx] = time.time()
        cur[widx] = i
        try:
            r = run_job(jobs[i])
        except BaseException:       # noqa
            r = {'error': traceback.format_exc()[-1500:]}
        pickle.dump((i, r), f)
        f.flush()
    cur[widx] = -1
    f.close()
    os._exit(0)


def pool_map(jobs, nproc=None, hard_s=None):
    """Forked workers; a worker that stays on one job longer than the hard
    limit (stuck outside the interpreter's reach) is killed, the job is
    reported as a hang and the worker replaced."""
    import multiprocessing
    nproc = min(nproc or common.NPROC, max(1, len(jobs)))
    hard_s = hard_s or (SOFT_S * 8 + HARD_EXTRA_S)
    outdir = '/dev/shm/verif-c14-%d-%d' % (os.getpid(),
                                           int(time.time() * 1000))
    os.makedirs(outdir)
    ctx = multiprocessing.get_context('fork')
    counter = ctx.Value('i', 0, lock=False)
    lock = ctx.Lock()
    slots = nproc * 4
    cur = ctx.Array('i', [-1] * slots, lock=False)
    started = ctx.Array('d', [0.0] * slots, lock=False)
    res = [None] * len(jobs)
    try:
        live = {}
        nxt = [0]

        def spawn():
            w = nxt[0]
            nxt[0] += 1
            if w >= slots:
                return
            pid = os.fork()
            if pid == 0:
                try:
                    _pool_worker(w, jobs, counter, lock, cur, started,
                                 outdir)
                finally:
                    os._exit(1)
            live[pid] = w

        for _ in range(nproc):
            spawn()
        while live:
            time.sleep(0.05)
            for pid, w in list(live.items()):
                p, _st = os.waitpid(pid, os.WNOHANG)
                if p:
                    del live[pid]
                    continue
                i = cur[w]
                if i >= 0 and time.time() - started[w] > \
                        _job_hard_limit(jobs[i], hard_s):
                    os.kill(pid, signal.SIGKILL)
                    os.waitpid(pid, 0)
                    del live[pid]
                    res[i] = {'hard_hang': True}
                    spawn()
        for w in range(nxt[0]):
            p = os.path.join(outdir, 'w%d.pkl' % w)
            if os.path.exists(p):
                with open(p, 'rb') as f:
                    while True:
                        try:
                            i, r = pickle.load(f)
                        except EOFError:
                            break
                        except Exception:       # noqa
                            break
                        res[i] = r
        return res
    finally:
        shutil.rmtree(outdir, ignore_errors=True)


def _job_hard_limit(job, hard_s):
    if job[0] == 'base':
        text = load_seeds()[job[1]]['text']
        return 8 * budget_for(text) + HARD_EXTRA_S
    if job[0] == 'run':
        return 120.0
    return hard_s


# ---------------------------------------------------------------- tiers
QUICK_MUTATED = (
    'gen/guard_var', 'gen/policies', 'gen/adv_publish',
    'gen/defaults_policies', 'gen/reverse2', 'gen/vars_input',
    'gen/with_items', 'gen/join_one', 'genj/bad_guard',
    'gen/workbook_small', 'gen/actions',
    'file/mistral/tests/resources/wb_v2.yaml',
    'file/mistral/resources/actions/wait_ssh.yaml',
)
MAX_NODES_MUTATED = 250     # larger seeds: baseline only
RUN_MUTANTS_MAX_TASKS = 2   # thorough: accepted mutants of these are run
PAIR_MAX_TASKS = 2
PAIR_MAX_NODES = 16


def build_jobs(tier):
    seeds = load_seeds()
    jobs, bounds = [], collections.OrderedDict()
    base = [('base', i) for i in range(len(seeds))]
    # longest first: the big bundled files dominate the wall clock
    base.sort(key=lambda j: -len(seeds[j[1]]['text']))
    texts = [('text', name, kind) for name, _ in M.TEXTS
             for kind in ('wf', 'wb', 'act')]
    pres = [('pres', bname, v) for bname, btext in M.PRES_BASES
            for v in M.presentations(btext)]
    singles = []
    mutated, skipped_big, run_mutant_seeds = [], [], []
    for i, s in enumerate(seeds):
        tree = _TREES[i]
        if tree is None:
            continue
        if M.node_count(tree) > MAX_NODES_MUTATED:
            skipped_big.append(s['id'])
            continue
        if tier == 'quick' and s['id'] not in QUICK_MUTATED:
            continue
        mutated.append(s['id'])
        run = bool(tier == 'thorough' and s.get('runnable') and
                   (s.get('tasks') or 99) <= RUN_MUTANTS_MAX_TASKS)
        if run:
            run_mutant_seeds.append(s['id'])
        for m in M.single_mutations(tree):
            singles.append(('mut', i, [m], True, run))
    pairs = []
    pair_seeds = []
    if tier == 'thorough':
        for i, s in enumerate(seeds):
            tree = _TREES[i]
            if tree is None or s.get('origin') != 'generator' or \
                    not s.get('tasks') or s['tasks'] > PAIR_MAX_TASKS or \
                    M.node_count(tree) > PAIR_MAX_NODES:
                continue
            pair_seeds.append(s['id'])
            ms = M.single_mutations(tree, values=M.PAIR_VALUES,
                                    keys=M.PAIR_KEYS, inserts=False)
            for a in range(len(ms)):
                for b in range(a + 1, len(ms)):
                    if M.independent(ms[a], ms[b]):
                        pairs.append(('mut', i, [ms[a], ms[b]], False))
    runs = []
    for i, s in enumerate(seeds):
        if s.get('runnable'):
            runs.append(('run', i, 'S'))
            runs.append(('run', i, 'E'))
    bounds['seeds'] = len(seeds)
    bounds['seeds_mutated'] = mutated
    bounds['seeds_baseline_only_too_large'] = skipped_big
    bounds['max_nodes_mutated'] = MAX_NODES_MUTATED
    bounds['value_catalogue'] = [n for n, _ in M.VALUES]
    bounds['key_catalogue'] = [n for n, _ in M.KEYS]
    bounds['insert_catalogue'] = [n for n, _ in M.INSERTS]
    bounds['raw_texts'] = len(M.TEXTS)
    bounds['presentation_bases'] = [n for n, _ in M.PRES_BASES]
    bounds['presentation_edits'] = (
        'one line-level edit per case: a comment line at every position x '
        'indentation %s, a blank / whitespace-only line at every position, '
        'trailing blanks on every line, every content line of a block '
        'scalar replaced by each of %s, CRLF line ends, document markers'
        % (list(M.PRES_COMMENT_INDENTS), M.PRES_BLOCK_LINES))
    bounds['seeds_whose_accepted_mutants_are_run'] = run_mutant_seeds
    bounds['pair_seeds'] = pair_seeds
    bounds['pair_value_catalogue'] = M.PAIR_VALUES
    bounds['pair_key_catalogue'] = M.PAIR_KEYS
    bounds['jobs'] = {'baseline': len(base), 'raw_text_x_kind': len(texts),
                      'presentation_variants': len(pres),
                      'single_mutations': len(singles),
                      'pair_mutations': len(pairs), 'engine_runs': len(runs)}
    bounds['watchdog_s'] = SOFT_S
    jobs = base + runs + common.rotate(texts + pres + singles + pairs)
    return jobs, bounds


def job_doc(job):
    """What replay() needs: the text itself plus how it was produced."""
    if job[0] == 'run':
        s = load_seeds()[job[1]]
        return {'mode': 'run', 'text': s['text'], 'tag': job[2],
                'seed': s['id'], 'run_params': s.get('run_params')}
    kind, text, expected, expect, rest = job_case(job)
    d = {'mode': 'case', 'kind': kind, 'text': text, 'expect': expect,
         'rest': rest}
    if expected is not None:
        d['expected'] = [expected[0], expected[1]]
        try:
            json.dumps(d['expected'])
        except (TypeError, ValueError):
            d.pop('expected')
    if job[0] == 'mut':
        d['seed'] = load_seeds()[job[1]]['id']
        d['mutations'] = job[2]
        if len(job) > 4 and job[4]:
            d['run_after'] = True
            d['run_params'] = load_seeds()[job[1]].get('run_params')
    elif job[0] == 'base':
        d['seed'] = load_seeds()[job[1]]['id']
    elif job[0] == 'pres':
        d['presentation'] = [job[1], job[2]]
    else:
        d['raw_text'] = job[1]
    return d


def job_label(job):
    if job[0] == 'base':
        return 'seed=%s unmutated' % load_seeds()[job[1]]['id']
    if job[0] == 'text':
        return 'raw=%s kind=%s' % (job[1], job[2])
    if job[0] == 'pres':
        return 'workbook=%s presentation=%s' % (job[1], job[2])
    if job[0] == 'run':
        return 'seed=%s results=%s' % (load_seeds()[job[1]]['id'], job[2])
    return 'seed=%s mutations=%s' % (
        load_seeds()[job[1]]['id'],
        ';'.join('%s@%s%s' % (m[0], '/'.join(str(p) for p in m[1]),
                              '=' + str(m[2]) if m[2] else '')
                 for m in job[2]))


# ---------------------------------------------------------------- main
def main(tier):
    rep = common.SimpleReport(PROP, tier, level='exploration')
    app()
    jobs, bounds = build_jobs(tier)
    t0 = time.time()
    results = pool_map(jobs)
    groups = {}
    out_counts = collections.Counter()
    facts = collections.Counter()
    errors = []
    missing = 0
    for job, r in zip(jobs, results):
        if r is None:
            missing += 1
            continue
        if r.get('skip'):
            rep.counters['mutation_not_applicable'] += 1
            continue
        if r.get('error'):
            errors.append({'job': job_label(job), 'error': r['error']})
            continue
        if r.get('hard_hang'):
            r = {'key': 'hard-hang:' + job_label(job), 'kind': '?',
                 'outcome': 'hang', 'cls': None, 'facts': {}, 'len': 0,
                 'problems': [('hang/hard',
                               'the worker had to be killed: no return and '
                               'no reaction to the watchdog signal')]}
        rep.case(r['key'])
        jt = job[0]
        out_counts['%s:%s' % (jt, r['outcome'])] += 1
        if r['outcome'] == 'reject':
            out_counts['rejected_with:%s' % r['cls']] += 1
        for k, v in r['facts'].items():
            facts[k] += v
        for g, detail in r['problems']:
            cur = groups.get(g)
            cand = (r['len'], job_label(job))
            if cur is None:
                groups[g] = {'n': 1, 'best': cand, 'job': job,
                             'detail': detail}
            else:
                cur['n'] += 1
                if cand < cur['best']:
                    cur.update(best=cand, job=job, detail=detail)
        if len(rep.samples) < 5 and jt == 'mut' and \
                r['outcome'] in ('accept', 'reject') and \
                (len(rep.samples) % 2 == 0) == (r['outcome'] == 'accept'):
            rep.sample({'case': job_label(job), 'outcome': r['outcome'],
                        'rejected_with': r['cls'],
                        'text': job_case(job)[1][:600]})
    harness_groups = {}
    for g in sorted(groups):
        info = groups[g]
        if g.startswith('harness/'):
            harness_groups[g] = info['detail']
            continue
        msg = ('%s [%d case(s) in this group; smallest: %s]'
               % (info['detail'], info['n'], job_label(info['job'])))
        doc = job_doc(info['job'])
        doc['group'] = g
        rep.violation(g, msg, doc)
    rep.extra['violation_groups'] = {
        g: {'cases': groups[g]['n'], 'smallest': job_label(groups[g]['job'])}
        for g in sorted(groups) if g not in harness_groups}
    rep.counters.update(out_counts)
    rep.counters.update({'fact:' + k: v for k, v in facts.items()})
    rep.counters['violation_groups'] = len(groups) - len(harness_groups)
    rep.extra['bounds'] = bounds
    rep.extra['enumeration_wall_s'] = round(time.time() - t0, 1)
    rep.extra['accepted_cases'] = sum(
        v for k, v in out_counts.items() if k.endswith(':accept'))
    rep.extra['rejected_cases'] = sum(
        v for k, v in out_counts.items() if k.endswith(':reject'))
    rep.extra['spec_round_trips_compared'] = facts['roundtrips']
    rep.extra['expression_fields_checked'] = facts['expr_fields']
    rep.extra['harness_notes'] = {
        'job_errors': errors[:5], 'jobs_without_result': missing,
        'harness_groups': harness_groups}
    rep.extra['not_validated_by_design_observation'] = (
        "R1 covers the directly expression-bearing fields only; "
        "'output-on-error', 'target', dynamic action/workflow names and "
        "expressions nested deeper than one level inside input/publish "
        "values are not syntax-checked by the implementation and are "
        "outside R1")
    rep.assumptions = [
        'jsonschema check_schema of the static per-class spec schemas is '
        'memoised after its first successful run (0.25 s per spec object '
        'otherwise); instance validation is unchanged',
        'REST calls go through the pecan WSGI application in-process '
        '(webtest), auth disabled, SQLite in memory; an exception escaping '
        'the WSGI app counts as an internal error (HTTP 500)',
        'hang = no return within 5 s (+0.02 s per line for the bundled '
        'multi-thousand-line files) on this machine',
        'mutated documents are written with yaml.safe_dump (block style); '
        'flow style, comments and quoting variants come from the bundled '
        'files and the raw text catalogue only',
        'the warm-cache vs evicted-cache engine runs follow one fixed '
        'schedule (first enabled step); interleavings are C01\'s subject',
    ]
    exhaustive = not errors and not missing and not harness_groups
    rule = ('cases = (entry-point kind, definition text); enumerated: every '
            'seed unmutated + every raw text x {wf,wb,act} + every single '
            'node mutation (each node x value catalogue, deletion, key '
            'rename catalogue, insertion) of the seeds listed in '
            'bounds.seeds_mutated%s; distinct = sha1(kind, text); every '
            'distinct case is non-trivial (it is parsed and classified)'
            % (' + all independent pairs from the reduced catalogue on '
               'bounds.pair_seeds' if tier == 'thorough' else ''))
    return rep.finish(rule=rule, exhaustive=exhaustive)


def _replay_inproc(doc):
    app()
    if doc.get('mode') == 'run':
        c = evaluate_run(doc['text'], doc['tag'], doc.get('run_params'))
    else:
        expected = None
        if doc.get('expected') is not None:
            expected = (doc['expected'][0], doc['expected'][1])
        c = evaluate(doc['kind'], doc['text'], expected, doc.get('expect'),
                     doc.get('rest', True))
        if doc.get('run_after') and c.outcome == 'accept':
            for tag in ('S', 'E'):
                c.problems.extend(evaluate_run(
                    doc['text'], tag, doc.get('run_params')).problems)
    want = doc.get('group')

    def match(g):
        if want is None:
            return True
        if want.startswith('hang/'):
            return g.startswith('hang/')
        return g == want
    hits = [d for g, d in c.problems if match(g)]
    if hits:
        return True, '%s: %s' % (want, hits[0])
    return False, 'no problem of group %s (outcome=%s, other problems=%s)' % (
        want, c.outcome, [g for g, _ in c.problems])


def replay(doc):
    """Re-evaluates one recorded case in a child process, so that a case
    that blocks outside the interpreter's reach is still a verdict."""
    limit = 8 * budget_for(doc.get('text', '')) + HARD_EXTRA_S
    r, w = os.pipe()
    pid = os.fork()
    if pid == 0:
        os.close(r)
        try:
            res = _replay_inproc(doc)
        except BaseException:      # noqa
            res = (False, 'replay failed: ' + traceback.format_exc()[-400:])
        try:
            with os.fdopen(w, 'wb') as f:
                pickle.dump(res, f)
        finally:
            os._exit(0)
    os.close(w)
    t0 = time.time()
    while time.time() - t0 < limit:
        p, _st = os.waitpid(pid, os.WNOHANG)
        if p:
            break
        time.sleep(0.05)
    else:
        os.kill(pid, signal.SIGKILL)
        os.waitpid(pid, 0)
        os.close(r)
        return True, ('hang/hard: no answer within %.0f s wall clock and no '
                      'reaction to the CPU-time watchdog' % limit)
    with os.fdopen(r, 'rb') as f:
        data = f.read()
    if not data:
        return False, 'replay child died without a result'
    return pickle.loads(data)


if __name__ == '__main__':
    sys.exit(main(sys.argv[1] if len(sys.argv) > 1 else 'quick'))
