#!/usr/bin/env python3
"""Regenerates MANIFEST.json from the table below (single source)."""
import json
import os

ROOT = os.path.dirname(os.path.abspath(__file__))
BASE = ("cd /repo && /venv/bin/python -m pytest -ra -q -p no:cacheprovider "
        "--timeout=900 --continue-on-collection-errors")

CHECKS = {
    'C01': dict(
        level='model_checking', design='3/C01',
        technique='explicit-state model checking of the implementation: '
                  'exhaustive DFS over interleavings of engine atomic steps '
                  '(fork-checkpointed, hash-pruned), reference-model oracle',
        text='Every interleaving (exhaustive for programs with <= 3 tasks, '
             'every schedule with <= 2 deviations for larger ones in quick) '
             'of message deliveries, post-commit operations and scheduler '
             'steps of the real engine is executed for each program x '
             'action-result assignment of the corpus; each reached state is '
             'checked for undeclared errors, each quiescent state for '
             'final-ness and for membership of its outcome in the set the '
             'reference model of the language allows.',
        note='Transactions are atomic steps (SQLite mode of Mistral); the '
             'reference model (mc/refmodel.py) is trusted as the reading of '
             'the language; corpus bounded as stated in evidence.'),
    'C03': dict(
        level='model_checking', design='3/C03',
        technique='explicit-state model checking of the implementation: '
                  'DFS over interleavings x operator commands issued at '
                  'every point; transition oracle on committed DB images + '
                  'monitor on every workflow state compare-and-swap',
        text='Small programs (plain, fork/join, async action, retry, '
             'sub-workflow, with-items) x results are explored with command '
             'menus (pause/resume, stop x3, rerun, skip, external and late '
             'contradicting results, async PAUSED/RUNNING updates; <= 2 '
             'commands) issued at every point; every step is checked: final '
             'workflow states only left by rerun, SUCCESS never, each '
             'individual state change in the statement table, completed '
             'actions and succeeded tasks never change, finished workflows '
             'keep state/output.',
        note='Committed states (transaction granularity) + per-call monitor '
             'of the state CAS; commands delivered where issued; bounds in '
             'evidence.'),
    'C04': dict(
        level='model_checking', design='3/C04',
        technique='explicit-state model checking of the implementation: '
                  'exhaustive DFS over interleavings of engine atomic steps; '
                  'transition oracle on consecutive DB images + reference '
                  'model',
        text='All fork/join shapes of the corpus (join all/one/N, nested, '
             'error/complete/guarded routes, impossible routes) and all '
             'requires-DAGs on <= 3 tasks (4 thorough) x every target are '
             'run under every interleaving (bounded by 2 deviations for the '
             'larger shapes in quick); at every transition a join that '
             'starts must have its required inbound completions routed to '
             'it, exist once and start once; reverse tasks are created only '
             'after their requirements succeeded, each once, only in the '
             'closure of the target.',
        note='Atomic transactions (named locks not exercised); DAG programs '
             'with one instance per inbound task.'),
    'C05': dict(
        level='model_checking', design='3/C05',
        technique='explicit-state model checking of the implementation: '
                  'DFS over interleavings, data-flow reference model (latest '
                  'causal publisher per leaf), context immutability monitor',
        text='Fork/join data-flow programs (publish / publish-on-error on '
             'either branch, scalar and 3-level nested values, YAQL and '
             'Jinja) are run under all interleavings; every task\'s stored '
             'inbound context, published variables and the output must equal '
             'the reference semantics; finished tasks\' stored contexts never '
             'change; no evaluation mutates its context.',
        note='Default configuration (versioning on, strategy replace); row '
             'order at the merge varied by swapping branch roles.'),
    'C19': dict(
        level='exploration', design='3/C19', engine='input-mc',
        technique='bounded exhaustive input enumeration against an '
                  'independent reference normaliser (URL catalogue x '
                  'resolver answers x configurations), no sampling',
        text='The complete product of schemes x userinfo x host encodings x '
             'ports x paths x scripted resolver answers x configurations is '
             'pushed through validate_url, HTTPAction.run and '
             'WebhookPublisher.publish with the HTTP client replaced by a '
             'recorder and compared with an independent normaliser.',
        note='Catalogue bounds in evidence; DNS rebinding and redirects out '
             'of scope.'),
    'C06': dict(
        level='model_checking', design='3/C06',
        technique='explicit-state model checking of the implementation: '
                  'DFS over interleavings x fault menu (duplicate delivery '
                  'of any one message at every later point, lost executor + '
                  'redelivery); step and terminal oracles',
        text='Programs x results: every already delivered '
             'on_action_complete / start_task / start_workflow(with id) / '
             'run_action message is delivered once more at every later '
             'point, and a pending run_action is lost with its executor and '
             'redelivered; at every state: <= 1 accepted result per action, '
             'no second dispatch of an action, no second execution of a '
             'task, one root execution, a redelivered non-safe-rerun action '
             'is not run and reports exactly one error; terminal outcome '
             'allowed by the duplicate-free semantics.',
        note='The raise+rollback of a duplicate result is the mechanism, '
             'not a violation; atomic transactions.'),
    'C07': dict(
        level='model_checking', design='3/C07',
        technique='explicit-state model checking of the implementation: '
                  'DFS over item completion orders and interleavings with '
                  'the keyed completion jobs x item counts x concurrency x '
                  'outcomes x retry x rerun; step and terminal oracles',
        text='with-items tasks over 0..3 items (4 thorough), concurrency '
             'absent / 1 / 2 / n+1 / expression, every per-item outcome '
             '(success, error, cancel), action and sub-workflow items, '
             'retry and rerun with reset on/off: in every state <= '
             'concurrency items run, each index has one execution per '
             'attempt, the task is not final while an item is unfinished; '
             'at the end the state rule holds, results are in item order, '
             'a successor sees that list, a partial rerun re-executes only '
             'failed items.',
        note='Named lock of on_action_complete not exercised (atomic '
             'transactions); engine-level rerun of CANCELLED tasks '
             'included.'),
    'C08': dict(
        level='model_checking', design='3/C08',
        technique='explicit-state model checking of the implementation: '
                  'DFS over interleavings x policy parameter matrix x '
                  'outcome sequences x early/late timer firings (virtual '
                  'clock deviations); step oracles + reference model',
        text='Retry (count 0..2 literal / expression / task-default, delay '
             '0..2, break-on / continue-on), wait-before / wait-after, '
             'timeout racing an asynchronous result, fail-on and '
             'pause-before+resume are explored for every outcome sequence '
             'and timer position; attempts <= count+1, delayed tasks do not '
             'continue early, pause-before starts no action before resume, '
             'terminal outcome allowed by the reference model (incl. timeout '
             'race).',
        note='Virtual clock (1 s), <= 2 early timer firings per run; legacy '
             'scheduler.'),
    'C09': dict(
        level='model_checking', design='3/C09',
        technique='explicit-state model checking of the implementation: '
                  'DFS over interleavings of parent and child executions '
                  '(incl. the synchronous result hand-off) x child outcomes '
                  'x stop of the child at every point; DB oracles + nested '
                  'reference model',
        text='Nesting shapes (depth <= 2, parallel children, undeclared '
             'input key, caller namespace with fallback resolution, root '
             'environment read by the child), children started in-process '
             'and via RPC, child outcomes SUCCESS/ERROR and stop(state) on '
             'the child at every point: parent task state = child state, '
             'result = child output, successors once, one completion report '
             'per child, root id / namespace / environment / undeclared '
             'keys propagated, root-level outcome allowed by the nested '
             'reference model.',
        note='Children addressed by global name in quick; atomic '
             'transactions.'),
    'C10': dict(
        level='model_checking', design='3/C10',
        technique='explicit-state model checking of the implementation: '
                  'DFS over interleavings x pause at every point x resume at '
                  'every later point; transition oracle + reference-model '
                  'differential',
        text='Programs (sequence, fork, diamond, joins fed by starts, error '
             'routes, publish+join, retry) x results are run with pause '
             'issued at every point and resume at every later point of every '
             'schedule within the bound; no task may be created in an '
             'execution that is PAUSED before and after a step, an '
             'acknowledged pause leaves the tree PAUSED, and after resume the '
             'terminal outcome must be one the language allows for the '
             'unpaused program.',
        note='Commands delivered where issued; atomic transactions; '
             'reference model trusted.'),
    'C11': dict(
        level='model_checking', design='3/C11',
        technique='explicit-state model checking of the implementation: '
                  'DFS over interleavings x stop(state) on root / nested '
                  'execution at every point; transition and terminal oracles',
        text='Programs incl. nesting depth 2 and with-items of '
             'sub-workflows x stop(SUCCESS|ERROR|CANCELLED) on root or '
             'nested execution at every point: requested state and message '
             'held, no task creation in finished executions nor below a '
             'cancelled one, finished executions frozen, every finished '
             'sub-workflow reported to its parent exactly once, cancelled '
             'children with CANCELLED parent tasks.',
        note='Sub-workflows started in-process in quick; atomic '
             'transactions.'),
    'C12': dict(
        level='model_checking', design='3/C12',
        technique='explicit-state model checking of the implementation: '
                  'DFS over interleavings x rerun / skip issued at every '
                  'point where the task is in ERROR; reference-model '
                  'differential ("as if the new result came first")',
        text='For every program and every task that can fail, the failing '
             'task is rerun (new attempt succeeding or failing, also twice) '
             'or skipped at every point where it is in ERROR; afterwards '
             'workflow and ancestors must be RUNNING and the terminal '
             'outcome must be one the reference model allows for the '
             'program in which the task had its new result / was skipped '
             'from the start.',
        note='Failed tasks without error handlers; reset=False left to '
             'with-items (C07).'),
    'C14': dict(
        level='exploration', design='3/C14', engine='input-mc',
        technique='bounded exhaustive input enumeration: every single-node '
                  'mutation (36 replacement values, deletion, 16 key '
                  'renames, insertions) of every seed definition and a raw '
                  'text catalogue, through parser, validate and create '
                  'entry points, against totality / stability / '
                  'runnability oracles',
        text='Every node of every seed (generator programs, bundled '
             'workflows, workbooks, action lists) x the mutation catalogue '
             '(thorough: all pairs on small seeds) goes through the direct '
             'parser call, POST .../validate and create: outcome accepted or '
             'definition error only (no internal error, 5 s CPU watchdog), '
             'specs rebuilt from their stored forms are equal, workbook '
             'members re-parse to themselves, runs from stored forms equal '
             'runs from fresh specs.',
        note='REST in-process through the pecan test app; mutated texts in '
             'block style; bounds in evidence.'),
    'C15': dict(
        level='model_checking', design='3/C15', engine='op-mc',
        technique='exhaustive enumeration of setups x callers x every '
                  'data-access operation (db API, REST routes, expression '
                  'functions, engine paths) to depth 2 on the real code, '
                  'against a 60-line visibility / mutability reference model',
        text='11 resource types x scope x name collision x share status, '
             'four callers (owner, other project, member, admin), 90 db_api '
             'functions with argument variants, the v2 REST routes through '
             'the real app, the expression functions under 5 contexts and '
             'real engine runs; every result set, refusal, table diff and '
             'new-row ownership is compared with the reference model; depth '
             '2 repeats the alphabet after every distinct reached state.',
        note='One resource per project and type; SQLite; keystone stubbed; '
             'db-level breaches count only if reachable from a tenant '
             'route.'),
    'C16': dict(
        level='model_checking', design='3/C16', engine='op-mc',
        technique='exhaustive enumeration of the controller tree x policy '
                  'configurations x request variants and of all (current '
                  'state x requested state/fields) guard combinations over '
                  'the real WSGI app, against a reference policy/guard table',
        text='Every exposed controller method (walked from the controller '
             'tree) x rule denied/allowed x resource present/absent x list '
             'variants, and every state/field combination of the '
             'state-changing requests, is sent through the real pecan app '
             'with the real policy enforcer; a denied request must answer '
             '403 with every table unchanged, no message sent and no SQL '
             'before the denial; only documented moves succeed.',
        note='Keystone stubbed; engine inline; request templates '
             'hand-written (harness error if an allowed request stops '
             'succeeding).'),
    'C18': dict(
        level='model_checking', design='3/C18', engine='op-mc',
        technique='bounded exhaustive enumeration of execution-tree '
                  'populations x all settings tuples through the real '
                  'expiration policy and DB cascade, against a reference '
                  'eligibility model',
        text='All populations of <= 3 roots (5 thorough) with every state, '
             'age class, project and nesting shape within the stated bounds '
             'x the full 144-tuple settings product are evaluated once by '
             'the real periodic task; deleted set, order, completeness of '
             'remaining trees and termination are compared with the '
             'reference.',
        note='One evaluation per case on a quiescent DB; SQLite cascade.'),
    'C02': dict(
        level='model_checking', design='3/C02',
        technique='explicit-state model checking of the implementation: '
                  'exhaustive DFS over interleavings; differential oracle '
                  'across schedules and cache modes + reference model',
        text='For every confluent program x result assignment all '
             'interleavings are enumerated with spec caches kept and with '
             'all spec caches dropped before every step; all terminal '
             'outcomes (states, published, inbound contexts, output) of one '
             'scenario must be identical across schedules and cache modes '
             'and equal the single reference outcome.',
        note='Confluence decided by the reference model; timers only move '
             'at quiescence here (early timers: C08).'),
    'C17': dict(
        level='model_checking', design='3/C17', engine='sched-mc',
        technique='explicit-state model checking of the real cron '
                  'processing code: exhaustive DFS over interleavings of '
                  '1-3 processors\' DB steps, crash injection, virtual clock',
        text='1-3 activities run the real process_cron_triggers_v2 over '
             'triggers with every combination of pattern / first time / '
             'count at clock positions due / late / long lag for several '
             'rounds; every advance must be due, forward, on the pattern and '
             'in the future, each consumed occurrence starts exactly one '
             'workflow with the trigger\'s input / params under its '
             'project, never more than count, removal after the last one.',
        note='start_workflow intercepted at the RPC driver; keystone '
             'stubbed; each DB call an atomic step.'),
    'C13': dict(
        level='model_checking', design='3/C13', engine='sched-mc',
        technique='explicit-state model checking of the real scheduler '
                  'implementations: exhaustive DFS over interleavings of the '
                  'dispatcher / store-checker / pool-job / client-transaction '
                  'steps of 1-3 instances with crash injection, virtual clock',
        text='The real DefaultScheduler (its dispatcher loop, job-store '
             'checker loop and pool jobs run as controlled activities; '
             'threading/futures/time replaced by shims) and the real '
             'LegacyScheduler poll are explored over all interleavings with '
             'client transactions that schedule 1-3 jobs and commit or roll '
             'back, with a crash of one instance at any point; every state is '
             'checked for early / duplicate / rolled-back invocations, '
             'premature recapture and has_scheduled_jobs answers, every run '
             'to the horizon for at-least-once / exactly-once.',
        note='1 s virtual clock, time advances only at quiescence; '
             'transactions atomic; scenario list and bounds in evidence.'),
    'C20': dict(
        level='model_checking', design='3/C20',
        technique='explicit-state model checking of the implementation: '
                  'DFS over interleavings of real heartbeat-checker passes, '
                  'lost executors, heartbeats, late results and the '
                  'integrity-check job chain at chosen virtual-clock '
                  'positions; step and terminal oracles',
        text='Every subset of synchronous actions goes silent (request '
             'consumed without result); real handle_expired_actions passes '
             'run at threshold-1 / threshold / threshold+1 in every order '
             'with heartbeats and late results: only synchronous RUNNING '
             'actions older than the threshold are failed, none is left '
             'behind by a pass, late results change nothing, the run then '
             'follows the language semantics for "that action failed"; a '
             'task made stuck by a lost completion job is repaired by the '
             'integrity check after the delay, once, never when disabled, '
             'also across pause/resume.',
        note='Checker loop replaced by explicit passes; virtual clock.'),
}

NOT_YET = 'check not built yet in this revision (work in progress)'

OVERLAP = (' Scenarios named /overlap additionally let a transaction that '
           'has only read so far be overtaken by complete transactions of '
           'other activities before its first write or lock (the overlap '
           'READ COMMITTED permits, DESIGN 10.6); overlap after a write is '
           'not explored.')
# additions of session 3 (DESIGN 10.3 has the full table)
EXTRA_TEXT = {
    'C01': ' Corpus: curated programs incl. bounded cycles and nested '
           'joins, every direct DAG shape over <= 3 tasks (exhausted), join '
           'programs also over the real DefaultScheduler (dispatcher + '
           'pool).',
    'C02': ' A third mode runs the join programs over the real '
           'DefaultScheduler and compares outcomes across scheduler '
           'implementations; repository-bundled workflows (tests/resources, '
           'rally-jobs) run with their real std actions under the '
           'differential oracle.',
    'C03': ' The policy programs of C08 (delays, timers firing while '
           'other events are in flight, retries, with-items and '
           'sub-workflow tasks under policies) run under the same lifecycle '
           'oracles with stop / pause+resume issued at every point.',
    'C04': ' First assignment of every join shape also over the '
           'DefaultScheduler, and there with overlapping transactions too '
           '(two refresh jobs of one join overtaking each other between the '
           'unlocked read and the named lock); requires-graphs also with a '
           'requirement coming from task-defaults.',
    'C05': ' Value catalogue: null, falsy, container and shape-changing '
           'values, dropped keys.',
    'C06': ' Stateful programs (paused asynchronous action, paused / '
           'running sub-workflow, waits, retry delay, with-items) combine '
           'the duplicate with the operator commands that produce those '
           'task states; every policy program of C08 without a timeout '
           '(retries, waits, fail-on, with-items and sub-workflow tasks '
           'under policies) with a result delivered twice.',
    'C07': ' n=2 scenarios also over the DefaultScheduler; failed '
           'sub-workflow items repaired from the inside under a concurrency '
           'limit.',
    'C08': ' Every scenario over both scheduler implementations; policies '
           'around with-items and sub-workflow tasks.',
    'C09': ' Children called by global, workbook-relative and '
           'expression-valued names; retry policy around the sub-workflow '
           'task.',
    'C10': ' Pause during retry delays, waits, with-items and around a '
           'sub-workflow (root and child); K=1 in quick; every policy '
           'program of C08 (retry matrix, waits, timeout races, fail-on, '
           'task kinds x policies, policy pairs) paused at every point and '
           'resumed at every later point with the policy oracles active; '
           'every pause / resume also with its first commit refused as a '
           'deadlock victim (/dbretry).',
    'C11': ' The same stop repeated on the finished execution; results '
           'that arrive after the stop and cannot be handled; every policy '
           'program of C08 stopped at every point (wake-ups of delayed '
           'tasks, wait-after completions, timeout timers, remaining '
           'with-items iterations as late events); every stop command '
           'also with its first commit refused as a deadlock victim and '
           'the transaction retried (/dbretry).',
    'C12': ' Reruns inside the children of a with-items task, without and '
           'with a concurrency limit; every rerun / skip also with its '
           'first commit refused as a deadlock victim (/dbretry).',
    'C14': ' Workbook presentation variants (a comment / blank line at '
           'every position x indentation, trailing blanks, every block '
           'scalar line replaced by comment-, key- and list-looking text): '
           'the text cut out for every member must still be that member.'
           ' Accessor-order independence: what an accessor of a (cached) '
           'specification object returns must not depend on the accessors '
           'called before (all ordered pairs, against a fresh object).',
    'C18': ' Populations with 4-6 roots for several batches of surplus.',
    'C20': ' Ad-hoc actions the checker has to skip fill its batch '
           '(batch_size 1, 2, 10).',
}
HAS_OVERLAP = ('C01', 'C03', 'C04', 'C06', 'C07', 'C08', 'C11', 'C13', 'C17',
               'C20')


def main():
    props = [json.loads(l)['id'] for l in open(os.path.join(ROOT, 'properties.jsonl'))]
    checks = []
    for pid in props:
        c = CHECKS.get(pid)
        if not c:
            continue
        checks.append({
            'property_id': pid,
            'quick_cmd': './check %s --tier quick' % pid,
            'thorough_cmd': './check %s --tier thorough' % pid,
            'evidence_file': '/verif/evidence/%s.json' % pid,
            'replay_cmd_template': './check %s --replay {path}' % pid,
            'engine': c.get('engine', 'engine-explorer'),
            'level_claimed': {'category': c['level'],
                              'text': c['text'] + EXTRA_TEXT.get(pid, ''),
                              'design_ref': 'DESIGN.md ' + c['design'] +
                              ', 10.3'},
            'level_note': c['note'] + (OVERLAP if pid in HAS_OVERLAP
                                       else ''),
            'technique': c['technique'],
        })
    na = [{'property_id': p, 'reason': NA.get(p, NOT_YET)}
          for p in props if p not in CHECKS]
    m = {
        'version': 1,
        'setup_cmd': './setup.sh',
        'hooks': {
            'guard': 'MISTRAL_VERIF',
            'enable': 'no source hooks: every seam is a module attribute '
                      'patched from /verif/mc/env.py at import time',
            'baseline_off_cmd': BASE,
            'source_commits': [],
            'add_only': True,
        },
        'engines': [
            {'name': 'sched-mc', 'path': 'mc/sched_default.py',
             'serves_properties': ['C13', 'C17'],
             'kind_free_text': 'the engine explorer driving the real '
                               'DefaultScheduler/LegacyScheduler loops'},
            {'name': 'op-mc', 'path': 'checks/c16.py',
             'serves_properties': ['C15', 'C16', 'C18'],
             'kind_free_text': 'exhaustive enumeration of operation / '
                               'configuration spaces over the real DB API '
                               'and WSGI app against reference models'},
            {'name': 'input-mc', 'path': 'checks/c19.py',
             'serves_properties': ['C14', 'C19'],
             'kind_free_text': 'exhaustive enumeration of a finite input '
                               'catalogue against a reference model'},
            {'name': 'engine-explorer', 'path': 'mc/explore.py',
             'serves_properties': [p for p in props if p in CHECKS
                                   and CHECKS[p].get('engine') is None],
             'kind_free_text': 'explicit-state DFS over the real Mistral '
                               'engine/executor/scheduler under a greenlet '
                               'scheduler, virtual clock and controlled RPC; '
                               'states checkpointed by fork, pruned by '
                               'canonical-state hash; optional read-prefix '
                               'preemption inside transactions'},
        ],
        'checks': checks,
        'not_applicable': na,
        'notes': 'See DESIGN.md. All checks import the tree under test from '
                 '/repo (or VERIF_TREE).',
    }
    with open(os.path.join(ROOT, 'MANIFEST.json'), 'w') as f:
        json.dump(m, f, indent=1)


NA = {}

if __name__ == '__main__':
    main()
