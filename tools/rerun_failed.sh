#!/bin/sh
# tools/rerun_failed.sh ID : re-run (serially, with the seeded change applied) the repository tests that failed in the confirmation run
ID=$1; LOG=/verif/seeded/$ID/confirm.log; WT=/tmp/rr-$ID
FAILED=$(grep '^FAILED mistral' $LOG | awk '{print $2}' | sort -u)
[ -z "$FAILED" ] && exit 0
git -C /repo worktree add -q $WT HEAD || exit 2
cd $WT && git apply /verif/seeded/$ID/patch.diff
echo "== re-running the failed tests serially (timing-sensitive tests flake under load)" >> $LOG
/venv/bin/python -m pytest -q -p no:cacheprovider --timeout=900 $FAILED 2>&1 | tail -4 >> $LOG
cd / && git -C /repo worktree remove --force $WT
tail -3 $LOG
