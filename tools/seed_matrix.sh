#!/bin/sh
# tools/seed_matrix.sh [ids...] : run each property's quick check against its seeded change
cd /verif
IDS=${@:-$(ls /tmp | grep '^seed-C' | sed 's/seed-//')}
export VERIF_EVIDENCE_DIR=/tmp/seed-evidence
mkdir -p $VERIF_EVIDENCE_DIR
git -C /tmp/mut checkout -q . ; git -C /tmp/mut checkout -q --detach main
for id in $IDS; do
  P=/tmp/seed-$id/patch.diff
  [ -f $P ] || continue
  git -C /tmp/mut checkout -q .
  if ! git -C /tmp/mut apply $P 2>/tmp/apply-$id.err; then echo "$id patch does not apply"; continue; fi
  s=$(date +%s)
  VERIF_TREE=/tmp/mut ./check $id --tier quick > /tmp/seedrun-$id.log 2>&1; rc=$?
  e=$(date +%s)
  mkdir -p seeded/$id
  { echo "# VERIF_TREE=<tree with patch.diff applied> ./check $id --tier quick  -> exit $rc ($((e-s))s)"; grep -A2 '^VIOLATION' /tmp/seedrun-$id.log | cut -c1-400 | head -12; tail -1 /tmp/seedrun-$id.log; } > seeded/$id/detect.log
  echo "$id rc=$rc $((e-s))s $(grep -c '^VIOLATION' /tmp/seedrun-$id.log) viol"
done
git -C /tmp/mut checkout -q .
