#!/usr/bin/env python3
"""Writes seeded/<id>/meta.json from the static descriptions below and the
confirmation / detection logs produced by tools/confirm_seed.sh and
tools/seed_matrix.sh."""
import json
import os
import re

ROOT = os.path.dirname(os.path.dirname(os.path.abspath(__file__)))
SEEDS = {
 'C01': ('drop `processing=False` from the has_scheduled_jobs() call in task_handler._check_affected_tasks',
         'a join with >= 2 inbound tasks; the last inbound completion (and its post-commit _schedule_if_needed) must land between the invoke and the delete step of the previous refresh job'),
 'C02': ('find_indirectly_affected_task_executions stops at every join, created or not',
         'nested joins whose inner join is never created (all its routes evaluate false / fail); the outer join\'s other inbound task and its refresh job complete before the last inbound task of the inner join: the result then depends on the delivery order'),
 'C03': ('resume_workflow also accepts executions in ERROR',
         'a workflow already in ERROR (stop(ERROR) or an unhandled failure), then an operator resume or an on_action_update(RUNNING); worst after a late action result'),
 'C04': ('find_indirectly_affected_task_executions stops at every join (same site as C02, found independently)',
         'nested joins, inner join never triggered, the outer branch completes (and is refreshed) first; the opposite order hides it'),
 'C05': ('_merge_ctx passes the current key instead of the accumulated dotted path when it recurses',
         'a variable nested >= 3 levels, re-published in one branch and only inherited in the other, with the stale branch last in the upstream row order'),
 'C06': ('DefaultExecutor: missing `return` after send_error_back() for a redelivered non-safe-rerun action',
         'a run_action request redelivered (executor lost) for a task without safe-rerun while the action is still RUNNING on the engine'),
 'C07': ('is_with_items_completed: the "an item was cancelled" shortcut no longer requires `accepted`',
         'a with-items task with a CANCELLED item, rerun (reset=False) re-executing >= 2 items, one re-executed item completing while another still runs'),
 'C08': ('policy factory order: pause-before built after the wait policies',
         'a task with both pause-before and a non-zero wait-before; the wait-before timer fires while the workflow is still paused'),
 'C09': ('WorkflowAction.schedule passes the child definition\'s namespace instead of the caller\'s',
         'root started in a non-default namespace, a sub-workflow resolved through the fallback to the default namespace (depth >= 3 for a behavioural effect)'),
 'C10': ('Task.complete returns on a paused workflow before recording error_handled',
         'a task with an on-error route fails while its workflow is PAUSED; after resume the handled error is counted as unhandled'),
 'C11': ('stop_workflow cancels sub-workflows through one root_execution_id query instead of recursing',
         'nesting depth >= 3 and stop(CANCELLED) issued on the middle (non-root) execution'),
 'C12': ('Workflow.set_state only raises `accepted`, never lowers it',
         'with-items over sub-workflows, >= 2 failed children, the failed task inside both rerun, one rerun finishing before the other'),
 'C13': ('DefaultScheduler._dispatcher falls through after cond.wait(timeout) instead of re-evaluating the heap',
         'default scheduler, >= 2 jobs on one instance: while the dispatcher sleeps for a delayed job another job is scheduled -> the head is dispatched early'),
 'C14': ('WorkflowSpec.__init__ uses task.setdefault(\'type\', ...) (adapted to the repaired tree)',
         'a task with an explicit `type` key contradicting its workflow\'s type -> AttributeError (HTTP 500) from validation'),
 'C15': ('_get_accepted_resources without the member_id filter',
         'three projects: A shares a private workflow with B, B accepts, an unrelated project C then reads / uses it'),
 'C16': ('executions DELETE guard uses is_paused_or_completed',
         'start, pause, then DELETE without force: a PAUSED (unfinished) execution is deleted'),
 'C17': ('advance_cron_trigger returns modified_count >= 0',
         '>= 2 processors read the due trigger before either advances it: the loser starts a workflow too'),
 'C18': ('the state filter of the completed-root query is skipped when the deletable set is empty',
         'ignored_states lists all three terminal states: every root (also RUNNING / PAUSED) becomes eligible'),
 'C19': ('validate_url resolves hosts over AF_INET only',
         'IPv6 literals / AAAA-only names in denied networks: getaddrinfo fails, the code fails open'),
 'C20': ('_check_and_fix_integrity returns for PAUSED workflows before rescheduling itself',
         'an integrity check fires while the workflow is paused; after resume a task stuck RUNNING is never repaired'),
}

# second wave (independent sub-agents, asked for a different site than wave 1)
SEEDS.update({
 'C01b': ('find_indirectly_affected_task_executions stops at every join (the agent arrived at the same site as the first-wave C02/C04 seeds)',
          'a join behind a join that is never created (all routes into it switched off by guards); the other inbound branch of the outer join completes and is refreshed first'),
 'C02b': ('_merge_ctx hashes the version key before the dict test (hash_version_keys on): nested leaves are looked up under a key nobody wrote',
          'a dict-valued variable re-published with a changed leaf in one branch and only inherited by the other, merged at a join with the inheriting branch last in row order'),
 'C03b': ('_succeed_workflow assigns the evaluated output before the state compare-and-swap',
          'two transactions overlap (READ COMMITTED): the completion check has read RUNNING, an operator stop commits, the check flushes its output and its swap matches nothing'),
 'C04b': ('reverse workflows: _is_satisfied_task reads task_spec.get_requires() (ignores task-defaults requires)',
          'a reverse workflow whose task-defaults name a required task that is slow or fails'),
 'C05b': ('_merge_ctx treats a key whose value is null like a missing key',
          'a variable re-published as null in one branch and inherited in the other, null-publishing branch last in row order'),
 'C06b': ('_run_new guard is_idle -> is_paused_or_idle',
          'a start_task request redelivered while the task is PAUSED (asynchronous action paused through on_action_update, or paused sub-workflow)'),
 'C07b': ('_increase_capacity: capacity < concurrency became <=',
          'with-items over sub-workflows with a concurrency limit; a failed child is repaired by a rerun of its inner task; the late completion pushes the capacity above the limit and the task never completes'),
 'C08b': ('RetryPolicy: continue-on only consulted after a successful attempt',
          'retry with continue-on evaluating to false and an attempt that fails while retries remain'),
 'C09b': ('Task.invalidate_result only un-accepts action executions, not sub-workflow executions',
          'a sub-workflow task under retry with continue-on repeating a successful child: every attempt stays accepted'),
 'C10b': ('_check_affected_tasks returns early for PAUSED workflows',
          'a join is WAITING (its creation-time refresh already ran), another inbound branch fails during the pause, resume has nothing to dispatch'),
 'C11b': ('_fail_workflow guard is_paused_or_completed -> not is_valid_transition(state, ERROR)',
          'stop(ERROR) repeated on an execution that is already ERROR, or a late unhandleable result after stop(ERROR)'),
 'C12b': ('_recursive_rerun returns early when the parent workflow is still RUNNING',
          'a task inside a sub-workflow is rerun while a sibling branch keeps the parent RUNNING: the parent task stays ERROR'),
 'C13b': ('get_scheduled_jobs_to_start: recapture disjunct compares execute_at instead of captured_at',
          'a job picked up through the store poll (overdue past pickup_job_after) while a second instance polls between capture and delete of the first'),
 'C14b': ('DirectWorkflowTaskSpec.get_publish merges the state-specific publish into the long-lived on-complete PublishSpec',
          'a task with task-level publish and on-complete publish, completed once through the cached spec object, then completed in the other state'),
 'C15b': ('delete_environment checks the owner of the first matching row only, then bulk-deletes by name',
          'two projects own environments of one name, the victim\'s is public, the attacker\'s row is returned first'),
 'C16b': ('executions PUT: description guard became an elif of the env guard',
          'one request carrying state=RUNNING, description and params.env together'),
 'C17b': ('delete_cron_trigger: ORM delete returning a constant 1 instead of the DELETE rowcount',
          'two processors overlap inside delete_cron_trigger (READ COMMITTED): the loser\'s delete matches no row but reports 1'),
 'C18b': ('_delete_until_depleted stops after a short batch, but is given max_finished_executions as the batch size',
          'max_finished_executions > batch_size > 0 and more than one batch of surplus'),
 'C19b': ('validate_url returns as soon as the host is on the allow-list',
          'allowed_hosts configured and an allow-listed host that resolves into a denied network'),
 'C20b': ('get_running_expired_sync_action_executions really applies the batch limit (query = query.limit(limit))',
          'at least batch_size expired running actions the checker skips (ad-hoc runs without a task) created before the lost action of a workflow: the batch is always filled by them'),
})

# third wave
SEEDS.update({
 'C01c': ('_possible_route returns the verdict of the first completed parent of a not-yet-created inbound task',
          'a join whose inbound task has two parents; the first-defined parent completes without triggering it while the second still runs when the join is refreshed; the join has an on-error / on-complete route'),
 'C02c': ('get_workflow_spec_by_execution_id on a cache miss returns the spec cached for the (current) definition instead of the stored execution spec',
          'the definition is updated while an execution is in flight and the next event of that execution is handled with a cold execution-spec cache'),
 'C03c': ('the "rerunning succeeded tasks" guard moved from _run_existing to Workflow.rerun',
          'two rerun commands for the same ERROR task; the first runs it to SUCCESS, the second start request then restarts the succeeded task'),
 'C04c': ('numeric join: the remaining cardinality is used in the "still reachable" test',
          'join: N >= 2 with at least one but fewer than N routed inbound tasks and enough others completing without routing'),
 'C05c': ('a join takes the context of every completed inbound task that routed somewhere (has_next_tasks) instead of those that routed to it',
          'partial join; an inbound task whose guarded / error edge into the join does not fire, which routes elsewhere and publishes'),
 'C06c': ('Task.complete guard: not is_valid_transition(state, new) instead of not is_skipped(new)',
          'a duplicated sub-workflow result message arriving after the parent task completed while the parent workflow is still RUNNING'),
 'C07c': ('Workflow.set_state never lowers `accepted` (same site as the first-wave C12 seed)',
          'with-items over sub-workflows, two failed items repaired from the inside, one finishing before the other'),
 'C08c': ('_before_task_start stops at the first policy that moves the task out of RUNNING',
          'wait-before (or pause-before) together with timeout on one task and an action that outlives the timeout'),
 'C09c': ('resolve_workflow_definition: split(parent_spec_name)[0] instead of rstrip',
          'a workbook whose name contains the calling workflow\'s own short name (main_flows / main) calling a sibling by its short name'),
 'C11c': ('_refresh_task_state no longer returns for a completed workflow (guard lost when the spec construction moved under the lock)',
          'a join whose inbound tasks have all completed and whose refresh job is pending when the stop commits; the join runs a sub-workflow (cancel)'),
 'C12c': ('Workflow.rerun cleans the task runtime context only when reset is true',
          'a with-items task with a retry policy that exhausted its retries, rerun with reset=False, first new attempt fails again'),
 'C13c': ('has_scheduled_jobs: the first in-memory job with the key decides the processing filter',
          'two live jobs with one key in different capture states'),
 'C14c': ('parse_yaml catches MarkedYAMLError instead of YAMLError',
          'a definition text containing a character the YAML reader refuses (ESC, NUL, U+FFFE): ReaderError escapes'),
 'C15c': ('rest_utils.get_all: a project_id filter makes the query insecure',
          'a non-admin lists workflows / cron triggers with ?project_id=<other project> (uuid-like ids)'),
 'C16c': ('rest_utils.get_all: a project_id filter makes the query insecure (same change as C15c, found independently)',
          'GET /v2/workflows?project_id=<B> by a non-admin without the all_projects rule'),
 'C17c': ('process_cron_triggers_v2 builds the context from the workflow definition\'s project',
          'a trigger of project B on a public workflow owned by project A'),
 'C18c': ('get_expired_executions filters on created_at instead of updated_at',
          'a finished root execution that started before the cut-off and finished after it'),
 'C19c': ('validate_url skips networks of the other IP version before unwrapping IPv4-mapped addresses',
          'http://[::ffff:169.254.169.254]/ or a name resolving to such an address'),
 'C10c': ('_continue_workflow drops every engine command (not only pause) on resume',
          'a task whose clause yields fail / succeed completes while the workflow is paused'),
})

# fourth wave
SEEDS.update({
 'C20c': ('handle_expired_actions skips expired actions whose task is already completed',
          'the task finishes (timeout policy) while its synchronous action is still RUNNING and the executor has gone silent'),
 'C01d': ('ReverseWorkflowController.may_complete_workflow: the completion check is registered only for the target or for failed tasks',
          'a reverse workflow in which a task requires two parallel tasks, one fails and is delivered first, the other succeeds later'),
 'C03d': ('RegularAction.complete: the "already completed" guard forgets CANCELLED',
          'an action cancelled by the operator, then a late result for the same action execution'),
 'C05d': ('evaluate_workflow_output: input outranks the workflow context (globals, vars)',
          'a variable that is a workflow input and is published globally (or defined in vars), read by the output clause'),
 'C06d': ('_increase_capacity without its upper bound',
          'with-items over sub-workflows under a concurrency limit and an item result message delivered twice'),
 'C07d': ('_has_more_iterations counts completed-or-running instead of accepted-or-running executions',
          'a with-items task started a second time (retry / rerun) with more items to run than the concurrency limit'),
 'C08d': ('_fail_task_if_incomplete only fails RUNNING / DELAYED tasks',
          'timeout together with pause-before (task IDLE when the timer fires) or a paused sub-workflow task'),
 'C10d': ('pause_workflow skips the sub-workflows of completed tasks',
          'a sub-workflow task failed by its timeout while the child still runs, error handled, then the root is paused'),
 'C12d': ('Task.set_state: `if processed:` instead of `if processed is not None:`',
          'rerun, pause while the new attempt is in flight, attempt completes during the pause, resume'),
 'C13d': ('_process_store_jobs appends the job even when the capture compare-and-swap failed',
          'two instances whose store polls overlap (select, other instance captures, capture fails) - e.g. after the scheduling instance died'),
})


SEEDS.update({
 'C04d': ('_refresh_task_state re-reads the join with load_task_execution (stale identity-map object) instead of refresh under the named lock',
          'two refresh jobs of one join with overlapping transactions: the second starts the join between the unlocked read and the lock of the first'),
 'C14d': ('_parse_def_from_wb: comment-looking lines are taken over without dedenting',
          'a workbook member with a block scalar containing a line that starts with #'),
 'C17d': ('advance_cron_trigger clamps the croniter result to now instead of its start time',
          'a patterned trigger evaluated at least one period late, then one more processing pass'),
 'C18d': ('get_superfluous_executions: LIMIT (limit or surplus) over ascending order instead of OFFSET max_finished',
          'max_finished_executions with a batch size that does not divide the surplus'),
 'C19d': ('_denied_networks became a generator: exhausted after the first resolved address',
          'a host name resolving to several addresses, a denied one not first'),
})


SEEDS.update({
 'C02d': ('_possible_route decides on the first existing parent of a missing inbound task',
          'a join whose inbound task has two parents; the first-listed parent completes without routing to it while the other is still pending'),
 'C09d': ('WorkflowAction.schedule splits input / params only when the child declares input',
          'a child definition without an input section called with non-empty task input'),
 'C11d': ('stop_workflow: post_tx_queue.run outside retry_on_db_error',
          'a cancel with an unfinished sub-workflow below plus one retriable DB error (deadlock) in the stop transaction'),
 'C15d': ('from_environ: is_admin by substring test on the raw X-Roles header',
          'auth enabled and a non-admin role whose name contains "admin" (ResellerAdmin)'),
 'C16d': ('TasksController.put guard by is_valid_transition instead of "state is ERROR"',
          'PUT state=RUNNING on a task that is CANCELLED / WAITING / IDLE / DELAYED / PAUSED'),
 'C20d': ('update_action_execution_heartbeat never moves last_heartbeat backwards',
          'first_heartbeat_timeout > 0, a heartbeat inside the grace period, then a lost executor'),
})
SEEDS.update({
 'C13e': ('_capture_scheduled_job keeps the compare-and-swap filter only for never-captured jobs; a stale job is re-captured unconditionally',
          'an instance dies between capture and delete; after captured_job_timeout two survivors both select the stale row before either re-captures it, and the second capture lands on a later clock second than the first'),
 'C07e': ('_get_next_indexes counts only RUNNING / IDLE item executions as in progress (a PAUSED item no longer holds its index)',
          'concurrency below the item count; one running item is paused (on_action_update PAUSED); another item completes while the first is still paused and items remain unscheduled'),
 'C17e': ('delete_cron_trigger returns len(session.deleted) after session.delete() instead of the rowcount of DELETE ... WHERE id',
          'the last execution of a counted trigger; processor B has read the row inside delete_cron_trigger when processor A deletes it and starts the workflow'),
})


def main():
    for sid, (change, needs) in SEEDS.items():
        d = os.path.join(ROOT, 'seeded', sid)
        if not os.path.isdir(d):
            continue
        meta = {'property_id': sid[:3], 'seed': sid, 'change': change,
                'needs_in_order_to_manifest': needs,
                'files': sorted(f for f in os.listdir(d)
                                if f != 'meta.json'),
                'produced_by': 'independent sub-agent given only the '
                               'property text and a scratch worktree'}
        cl = os.path.join(d, 'confirm.log')
        if os.path.exists(cl):
            txt = open(cl).read()
            m = re.search(r'SUMMARY demo_original_exit=(\d+) '
                          r'demo_changed_exit=(\d+)', txt)
            suite = re.findall(r'^(?:\d+ failed, )?\d+ passed.*$', txt, re.M)
            meta['confirmed_here'] = {
                'how': 'tools/confirm_seed.sh %s <agent output dir>: scratch worktree of /repo '
                       'HEAD; demonstration on the original tree, then with '
                       'patch.diff applied, then the full unit suite with '
                       'the change (failed tests re-run serially)' % sid,
                'demo_exit_original_tree': int(m.group(1)) if m else None,
                'demo_exit_with_change': int(m.group(2)) if m else None,
                'suite_with_change': suite[-2:] if suite else None,
            }
        dl = os.path.join(d, 'detect.log')
        if os.path.exists(dl):
            txt = open(dl).read()
            m = re.search(r'exit (\d+)', txt)
            meta['detection'] = {
                'cmd': 'git -C <tree> apply seeded/%s/patch.diff; '
                       'VERIF_TREE=<tree> ./check %s --tier quick' % (
                           sid, sid[:3]),
                'exit': int(m.group(1)) if m else None,
                'first_lines': txt.splitlines()[1:6],
            }
        with open(os.path.join(d, 'meta.json'), 'w') as f:
            json.dump(meta, f, indent=1)


if __name__ == '__main__':
    main()
