#!/bin/sh
# tools/detect_seed.sh <seed> [tier] [check-id] : run the property's check against the seeded change
# (patch applied to a scratch worktree, VERIF_TREE pointing at it); writes seeded/<seed>/detect.log
S=$1; TIER=${2:-quick}; P=${3:-$(echo $S | cut -c1-3)}
WT=/tmp/ds-$S
cd /verif
git -C /repo worktree add -q --detach $WT HEAD || exit 2
git -C $WT apply /verif/seeded/$S/patch.diff || { echo "$S patch does not apply"; git -C /repo worktree remove --force $WT; exit 2; }
export VERIF_EVIDENCE_DIR=/tmp/seed-evidence-$S
mkdir -p $VERIF_EVIDENCE_DIR
s=$(date +%s)
VERIF_TREE=$WT ./check $P --tier $TIER > /tmp/seedrun-$S.log 2>&1; rc=$?
e=$(date +%s)
{ echo "# VERIF_TREE=<tree with patch.diff applied> ./check $P --tier $TIER  -> exit $rc ($((e-s))s)"; grep -A2 '^VIOLATION' /tmp/seedrun-$S.log | cut -c1-400 | head -12; tail -1 /tmp/seedrun-$S.log; } > seeded/$S/detect.log
[ "$P" != "$(echo $S | cut -c1-3)" ] && cp seeded/$S/detect.log seeded/$S/detect-$P.log
git -C /repo worktree remove --force $WT
rm -rf $VERIF_EVIDENCE_DIR
echo "$S via $P $TIER rc=$rc $((e-s))s $(grep -c '^VIOLATION' /tmp/seedrun-$S.log) viol"
