#!/bin/sh
# confirm every seed under /tmp/seed-* that has no confirm.log yet
for d in /tmp/seed-C*; do
  id=$(basename $d | sed 's/seed-//')
  [ -f $d/patch.diff ] || continue
  [ -f /verif/seeded/$id/confirm.log ] && grep -q SUMMARY /verif/seeded/$id/confirm.log && continue
  NP=${NP:-8} /verif/tools/confirm_seed.sh $id $d > /tmp/cs-$id.out 2>&1
done
echo ALLDONE > /tmp/confirm_all.done
