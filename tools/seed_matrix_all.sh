#!/bin/sh
# tools/seed_matrix_all.sh [tier] : every seeded change against its property's check, one after another
cd /verif
TIER=${1:-quick}
for d in seeded/C*; do
  s=$(basename $d)
  [ -f $d/patch.diff ] || continue
  tools/detect_seed.sh $s $TIER
done
