#!/bin/sh
# tools/new_seed_worktree.sh <seed-name> : scratch worktree + property text for an independent sub-agent
# seed-name = property id + wave letter (C01b); nothing from /verif but the property text is handed over.
S=$1; P=$(echo $S | cut -c1-3)
mkdir -p /tmp/sw
git -C /repo worktree add -q --detach /tmp/sw/$S HEAD || exit 2
python3 - "$P" > /tmp/sw/$S.property.txt <<'PY'
import json, sys
for l in open('/verif/properties.jsonl'):
    d = json.loads(l)
    if d['id'] == sys.argv[1]:
        print('PROPERTY %s: %s\n' % (d['id'], d['title']))
        print('Statement: %s\n' % d['statement'])
        print('Quantified over: %s\n' % d['quantifier']['text'])
        print('Why the existing tests cannot settle it: %s\n' % d['why_tests_cant'])
        print('Anchored in: %s' % json.dumps(d['anchors']))
PY
mkdir -p /tmp/sw/$S.out
echo /tmp/sw/$S
