#!/bin/sh
# tools/confirm_seed.sh <seed> <src-dir> : confirm a seeded change in a scratch worktree
# (demo passes on original, fails with the change; full unit suite passes with it).
# <seed> = property id, optionally followed by a wave letter (C05b).
ID=$1; SRC=$2; WT=/tmp/cs-$ID; OUT=/verif/seeded/$ID
mkdir -p $OUT
cp $SRC/patch.diff $OUT/patch.diff
DEMO=$(ls $SRC/test_demo.py $SRC/demo.py 2>/dev/null | head -1)
cp $DEMO $OUT/
[ -f $SRC/notes.md ] && cp $SRC/notes.md $OUT/notes.md
LOG=$OUT/confirm.log; : > $LOG
git -C /repo worktree add -q --detach $WT HEAD || exit 2
cd $WT
export PYTHONPATH=$WT
# (a demo that starts the engine may leave a non-daemon timer thread behind that keeps
# the pytest process alive after its summary line: bounded by `timeout`, verdict from the summary)
rundemo() {
  case "$DEMO" in
    *test_demo.py) timeout -k 5 400 /venv/bin/python -m pytest -q -p no:cacheprovider -x --timeout=300 $DEMO > /tmp/cs-demo-$ID.out 2>&1; rc=$?
                   cat /tmp/cs-demo-$ID.out
                   if grep -qE '^[0-9]+ failed|, [0-9]+ failed| error' /tmp/cs-demo-$ID.out; then return 1; fi
                   if grep -qE '^[0-9]+ passed' /tmp/cs-demo-$ID.out; then return 0; fi
                   return $rc ;;
    *) /venv/bin/python $DEMO ;;
  esac
}
echo "== imported tree: $(/venv/bin/python -c 'import mistral; print(mistral.__file__)')" >> $LOG
echo "== demo on original tree" >> $LOG
rundemo >> $LOG 2>&1; A=$?
echo "exit=$A" >> $LOG
git apply $OUT/patch.diff || { echo "patch does not apply" >> $LOG; }
echo "== demo with the change" >> $LOG
rundemo >> $LOG 2>&1; B=$?
echo "exit=$B" >> $LOG
echo "== full unit suite with the change" >> $LOG
/venv/bin/python -m pytest -q -p no:cacheprovider -n ${NP:-8} --timeout=900 mistral/tests/unit 2>&1 | tail -8 >> $LOG
FAILED=$(grep '^FAILED mistral' $LOG | awk '{print $2}' | sort -u)
if [ -n "$FAILED" ]; then
  echo "== re-running the failed tests serially (timing-sensitive tests flake under load)" >> $LOG
  /venv/bin/python -m pytest -q -p no:cacheprovider --timeout=900 $FAILED 2>&1 | tail -4 >> $LOG
fi
cd / && git -C /repo worktree remove --force $WT
echo "SUMMARY demo_original_exit=$A demo_changed_exit=$B" >> $LOG
grep -E "passed|failed" $LOG | tail -3
tail -1 $LOG
