#!/bin/sh
# tools/mutants_all.sh [tier] : every patch in mutants/ against the check named by its prefix
cd /verif
TIER=${1:-quick}
for p in mutants/*.patch; do
  n=$(basename $p)
  case $n in
    W1-*) c=$(echo $n | cut -d- -f2) ;;
    *) c=$(echo $n | cut -d- -f1) ;;
  esac
  tools/mutant_run.sh $p $c $TIER
done
