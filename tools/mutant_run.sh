#!/bin/sh
# tools/mutant_run.sh <patch> <check-id> [tier] : one mutant patch against one check (scratch worktree, VERIF_TREE)
P=$1; C=$2; TIER=${3:-quick}; N=$(basename $P .patch); WT=/tmp/mu-$N
cd /verif
git -C /repo worktree add -q --detach $WT HEAD || exit 2
if ! git -C $WT apply /verif/$P 2>/dev/null && ! git -C $WT apply $P; then echo "$N does not apply"; git -C /repo worktree remove --force $WT; exit 2; fi
export VERIF_EVIDENCE_DIR=/tmp/mu-ev-$N; mkdir -p $VERIF_EVIDENCE_DIR
s=$(date +%s); VERIF_TREE=$WT ./check $C --tier $TIER > /tmp/mu-$N.log 2>&1; rc=$?; e=$(date +%s)
echo "$N via $C rc=$rc $((e-s))s $(grep -c '^VIOLATION' /tmp/mu-$N.log) viol | $(grep -A1 '^VIOLATION' /tmp/mu-$N.log | sed -n 2p | cut -c1-120)"
git -C /repo worktree remove --force $WT; rm -rf $VERIF_EVIDENCE_DIR
