#!/bin/sh
# tools/run_all.sh [quick|thorough] [ids...] : run checks one after another
cd /verif
TIER=${1:-quick}; shift
IDS=${@:-C01 C02 C03 C04 C05 C06 C07 C08 C09 C10 C11 C12 C13 C14 C15 C16 C17 C18 C19 C20}
for id in $IDS; do
  s=$(date +%s)
  ./check $id --tier $TIER > /tmp/run-$id.log 2>&1; rc=$?
  e=$(date +%s)
  echo "$id rc=$rc $((e-s))s $(grep -c '^VIOLATION' /tmp/run-$id.log) viol $(grep -c '^KNOWN-FINDING' /tmp/run-$id.log) known | $(tail -1 /tmp/run-$id.log | cut -c1-150)"
done
