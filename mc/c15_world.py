"""C15: setups (operation prefixes from the empty DB), the catalogue of
db_api operations and the runner that executes one operation under one
caller and hands (result rows, DB before, DB after) to the reference model.
"""
import datetime
import inspect

from mc import env
from mc import c15_model as M

from mistral.db.v2 import api as db_api
from mistral.db.v2.sqlalchemy import models
from mistral.db.sqlalchemy import model_base
from mistral import exceptions as mexc
from mistral.services import workflows as wf_service
from mistral.services import workbooks as wb_service
from mistral.services import adhoc_actions

OVERRIDES = [('auth_enable', True, 'pecan'),
             ('enabled', False, 'cron_trigger'),
             ('allow_action_execution_deletion', True, 'api'),
             ('validation_mode', 'enabled', 'api')]
NAME = 'r1'

# project ids look like keystone ids (the REST `project_id` filter only
# accepts uuid-like values); the labels A / B / M / ADM appear in reports
PID = {'A': 'aaaaaaaa-aaaa-4aaa-8aaa-aaaaaaaaaaaa',
       'B': 'bbbbbbbb-bbbb-4bbb-8bbb-bbbbbbbbbbbb',
       'M': 'cccccccc-cccc-4ccc-8ccc-cccccccccccc',
       'ADM': 'dddddddd-dddd-4ddd-8ddd-dddddddddddd',
       'Z': 'eeeeeeee-eeee-4eee-8eee-eeeeeeeeeeee'}
CALLERS = {
    'A': M.Caller(PID['A'], label='A'), 'B': M.Caller(PID['B'], label='B'),
    'M': M.Caller(PID['M'], label='M'),
    'ADM': M.Caller(PID['ADM'], admin=True, label='ADM'),
}


def ctx_of(label):
    c = CALLERS[label]
    return env.default_ctx(project=c.project, admin=c.admin)


class Refused(Exception):
    pass


# ------------------------------------------------------------------ setups
WF_YAML = """---
version: '2.0'
%s:
  description: %s
  tasks:
    t1:
      action: std.noop
"""
WB_YAML = """---
version: '2.0'
name: %s
description: %s
workflows:
  w%s:
    tasks:
      t1:
        action: std.noop
"""
ACT_YAML = """---
version: '2.0'
%s:
  description: %s
  base: std.echo
  base-input:
    output: x
"""

T0 = datetime.datetime(2031, 1, 1)


def mark(kind, project, n=''):
    return 'MK-%s-%s%s' % (kind, project, n)


def tx(fn, who):
    def run():
        with db_api.transaction():
            return fn()
    return env.with_ctx(run, ctx_of(who))


class Setup(object):
    """type x scope x collision x share; built by real calls from the empty
    DB.  collision: none | B-private | B-public | B-public-first |
    M-private (row with the same name in another project; '-first' = created
    before A's row).  share: none | pending | accepted | rejected (A shares
    the workflow with project M)."""

    def __init__(self, typ, scope, collision='none', share='none'):
        self.typ, self.scope = typ, scope
        self.collision, self.share = collision, share
        self.table = M.TABLES[typ]
        self.ids = {}          # owner -> id of the row of type typ
        self.aux = {}          # owner -> dict of prerequisite ids
        self.marks = {}        # marker -> row id
        self.snap = None

    @property
    def key(self):
        return '%s/%s/coll=%s/share=%s' % (self.typ, self.scope,
                                           self.collision, self.share)

    def spec(self):
        return [self.typ, self.scope, self.collision, self.share]

    def build(self):
        env.reset(overrides=OVERRIDES)
        order = [('A', self.scope)]
        if self.collision != 'none':
            p = self.collision.split('-')
            if len(p) == 3:
                order.insert(0, (p[0], p[1]))
            else:
                order.append((p[0], p[1]))
        for who, scope in order:
            self._create(who, scope)
        if self.share != 'none':
            rid = self.ids['A']
            tx(lambda: db_api.create_resource_member(
                {'resource_id': rid, 'resource_type': 'workflow',
                 'member_id': PID['M']}), 'A')
            if self.share != 'pending':
                tx(lambda: db_api.update_resource_member(
                    rid, 'workflow', PID['M'], {'status': self.share}), 'M')
        self.snap = env.raw_conn().serialize()
        self.pre = M.dump(env.raw_conn())
        self.ids_n = env.Ids.n
        return self

    def restore(self):
        env.raw_conn().deserialize(self.snap)
        env.Ids.n = self.ids_n
        del env.W.acts[:]       # never-started post-commit activities
        del env.W.msgs[:]
        env.auth_context.set_ctx(None)

    # -- creation of one row (and what it needs) for one project
    def _create(self, who, scope):
        t = self.typ
        aux = self.aux.setdefault(who, {})
        mk = mark(t, who)

        def reg(m, rid, touch=False):
            self.marks[m] = rid
            if touch:
                tx(lambda: db_api.update_workflow_execution(
                    rid, {'accepted': True}), who)
            return rid

        def wf(name=NAME, m=None):
            m = m or mark('workflow', who)
            r = env.with_ctx(lambda: wf_service.create_workflows(
                WF_YAML % (name, m), scope=scope, validate=False)[0].id, ctx_of(who))
            return reg(m, r)

        def wfex(wf_id):
            m = mark('wf_ex', who)
            return reg(m, tx(lambda: db_api.create_workflow_execution({
                'name': NAME, 'workflow_name': NAME, 'workflow_id': wf_id,
                'workflow_namespace': '', 'description': m,
                'spec': {'version': '2.0', 'name': NAME,
                         'tasks': {'t1': {'action': 'std.noop',
                                          'name': 't1',
                                          'version': '2.0'}}},
                'state': 'SUCCESS', 'input': {'m': m}, 'output': {'m': m},
                'params': {}, 'context': {'secret': m}, 'scope': scope,
                'runtime_context': {}, 'tags': []}).id, who),
                touch=True)

        def taskex(wfex_id, wf_id):
            m = mark('task_ex', who)
            return reg(m, tx(lambda: db_api.create_task_execution({
                'name': NAME, 'workflow_execution_id': wfex_id,
                'workflow_name': NAME, 'workflow_id': wf_id,
                'workflow_namespace': '', 'state': 'SUCCESS',
                'spec': {'name': NAME, 'action': 'std.noop',
                         'version': '2.0'},
                'type': 'ACTION', 'in_context': {}, 'published': {'m': m},
                'runtime_context': {}, 'processed': True, 'scope': scope,
                'description': m, 'tags': []}).id, who))

        if t == 'workflow':
            rid = wf(m=mk)
        elif t == 'workbook':
            rid = reg(mk, env.with_ctx(
                lambda: wb_service.create_workbook_v2(
                    WB_YAML % (NAME, mk, who), scope=scope, validate=False).id, ctx_of(who)))
        elif t == 'action':
            rid = reg(mk, tx(lambda: adhoc_actions.create_actions(
                ACT_YAML % (NAME, mk), scope=scope)[0].id, who))
        elif t == 'code_source':
            rid = reg(mk, tx(lambda: db_api.create_code_source({
                'name': NAME, 'namespace': '', 'content': '# %s\n' % mk,
                'version': 1, 'scope': scope, 'tags': []}).id, who))
        elif t == 'dynamic_action':
            m2 = mark('code_source', who)
            aux['cs'] = reg(m2, tx(lambda: db_api.create_code_source({
                'name': 'cs1', 'namespace': '', 'content': '# %s\n' % m2,
                'version': 1, 'scope': scope, 'tags': []}).id, who))
            rid = tx(lambda: db_api.create_dynamic_action_definition({
                'name': NAME, 'namespace': '', 'class_name': 'C' + who,
                'code_source_id': aux['cs'], 'code_source_name': 'cs1',
                'scope': scope}).id, who)
        elif t == 'environment':
            rid = reg(mk, tx(lambda: db_api.create_environment({
                'name': NAME, 'description': mk,
                'variables': {'secret': mk}, 'scope': scope}).id, who))
        elif t in ('cron_trigger', 'event_trigger'):
            aux['wf'] = wf(name='w-' + who)
            if t == 'cron_trigger':
                rid = tx(lambda: db_api.create_cron_trigger({
                    'name': NAME, 'pattern': '* * * * *',
                    'next_execution_time': T0, 'first_execution_time': None,
                    'remaining_executions': None,
                    'workflow_name': 'w-' + who, 'workflow_id': aux['wf'],
                    'workflow_input': {'m': mk}, 'workflow_params': {},
                    'scope': scope, 'trust_id': 'trust-' + who}).id, who)
            else:
                rid = tx(lambda: db_api.create_event_trigger({
                    'name': NAME, 'workflow_id': aux['wf'],
                    'workflow_input': {'m': mk}, 'workflow_params': {},
                    'exchange': 'ex', 'topic': 'tp', 'event': 'ev',
                    'scope': scope, 'trust_id': 'trust-' + who}).id, who)
            self.marks[mk] = rid
        elif t in ('wf_ex', 'task_ex', 'action_ex'):
            aux['wf'] = wf(name='w-' + who)
            aux['wf_ex'] = wfex(aux['wf'])
            rid = aux['wf_ex']
            if t in ('task_ex', 'action_ex'):
                aux['task_ex'] = taskex(aux['wf_ex'], aux['wf'])
                rid = aux['task_ex']
            if t == 'action_ex':
                rid = reg(mk, tx(lambda: db_api.create_action_execution({
                    'name': NAME, 'task_execution_id': aux['task_ex'],
                    'workflow_name': NAME, 'state': 'SUCCESS',
                    'input': {'m': mk}, 'output': {'result': mk},
                    'accepted': True, 'scope': scope, 'spec': {},
                    'runtime_context': {}, 'description': mk,
                    'tags': []}).id, who))
        else:
            raise ValueError(t)
        self.ids[who] = rid


def setups(tier):
    out = []
    for t in M.TABLES:
        execs = t in ('wf_ex', 'task_ex', 'action_ex')
        for scope in (('private',) if execs else ('private', 'public')):
            colls = ['none', 'B-private']
            if not execs:
                colls += ['B-public', 'B-public-first']
            for coll in colls:
                out.append(Setup(t, scope, coll, 'none'))
            if t == 'workflow':
                for share in ('pending', 'accepted', 'rejected'):
                    for coll in (('none', 'B-public-first', 'M-private')
                                 if tier == 'quick' else
                                 ('none', 'B-private', 'B-public',
                                  'B-public-first', 'M-private')):
                        out.append(Setup(t, scope, coll, share))
    return out


def actors_of(s):
    a = ['A', 'B', 'ADM']
    if s.share != 'none' or s.collision.startswith('M'):
        a.insert(2, 'M')
    return a


# ------------------------------------------------------------------ results
def extract_ids(r, out=None, depth=0):
    """ids of DB rows contained in a db_api result."""
    out = [] if out is None else out
    if r is None or isinstance(r, (int, float, bool, str, bytes)):
        return out
    if isinstance(r, model_base.MistralModelBase):
        out.append(r.id)
        return out
    if hasattr(r, '_mapping'):                 # sqlalchemy Row
        for v in r:
            if isinstance(v, str):
                out.append(v)
            else:
                extract_ids(v, out, depth + 1)
        return out
    if isinstance(r, dict):
        if isinstance(r.get('id'), str):
            out.append(r['id'])
        for v in r.values():
            extract_ids(v, out, depth + 1)
        return out
    if isinstance(r, (list, tuple)) or inspect.isgenerator(r):
        for v in r:
            extract_ids(v, out, depth + 1)
    return out


def marks_in(text, s, pre, caller):
    """Row ids whose content marker occurs in `text`."""
    return [rid for m, rid in s.marks.items() if m in text]


# ------------------------------------------------------------------ db ops
class Op(object):
    def __init__(self, fn, variant, build, mode=None, sel=None):
        self.fn, self.variant = fn, variant
        self.id = '%s[%s]' % (fn, variant) if variant else fn
        self.build, self.mode, self.sel = build, mode, sel
        # argument shapes no product caller builds from tenant input
        self.synthetic = 'steal' in variant or 'forged' in variant


def rows(pre, table, pred):
    return [(table, i) for i, r in pre[table].items() if pred(r)]


def _by_name(s, pre):
    return rows(pre, s.table, lambda r: r['name'] == NAME
                and (r.get('namespace') or '') == '')


def _by_id(s, pre):
    return [(s.table, s.ids['A'])] if s.ids['A'] in pre[s.table] else []


def _all(s, pre):
    return rows(pre, s.table, lambda r: True)


def _f(col, val):
    return lambda s, pre: rows(pre, s.table, lambda r: r[col] == val)


def _vals(s, caller, steal=False):
    """Values for update / create-or-update of the setup's type."""
    t = s.typ
    v = {
        'workbook': {'name': NAME, 'namespace': '', 'definition': 'CHANGED',
                     'spec': {}, 'tags': ['chg'], 'scope': 'private'},
        'workflow': {'name': NAME, 'namespace': '', 'definition': 'CHANGED',
                     'spec': {}, 'tags': ['chg'], 'scope': 'private',
                     'is_system': False},
        'action': {'name': NAME, 'namespace': '', 'definition': 'CHANGED',
                   'spec': {}, 'tags': ['chg'], 'scope': 'private',
                   'is_system': False, 'description': 'CHANGED'},
        'code_source': {'content': 'CHANGED', 'scope': 'private'},
        'dynamic_action': {'class_name': 'CHANGED', 'scope': 'private'},
        'environment': {'name': NAME, 'description': 'CHANGED',
                        'variables': {'k': 'CHANGED'}, 'scope': 'private'},
        'cron_trigger': {'name': NAME, 'pattern': '1 * * * *',
                         'next_execution_time': T0,
                         'workflow_name': 'w-A',
                         'workflow_id': s.aux['A'].get('wf'),
                         'workflow_input': {'k': 'CHANGED'},
                         'workflow_params': {}, 'scope': 'private'},
        'event_trigger': {'name': 'CHANGED', 'scope': 'private'},
        'wf_ex': {'description': 'CHANGED', 'state': 'ERROR'},
        'task_ex': {'description': 'CHANGED', 'state': 'ERROR'},
        'action_ex': {'description': 'CHANGED', 'state': 'ERROR'},
    }[t]
    v = dict(v)
    if steal:
        v['project_id'] = CALLERS[caller].project
    return v


def _new_vals(s, caller, forge):
    """Values for a create by `caller` of a row named like A's."""
    t = s.typ
    a = s.aux['A']
    v = _vals(s, caller)
    if t == 'code_source':
        v.update(name=NAME, namespace='', version=1)
    if t == 'environment':
        pass
    if t == 'event_trigger':
        v.update(workflow_id=a.get('wf'), exchange='ex2', topic='tp',
                 event='ev', workflow_input={}, workflow_params={})
    if t == 'cron_trigger':
        v.update(pattern='2 * * * *')
    if t == 'wf_ex':
        v.update(name=NAME, workflow_name=NAME, spec={}, input={},
                 params={}, context={})
    if t == 'task_ex':
        v.update(name=NAME, workflow_execution_id=a['wf_ex'], spec={},
                 type='ACTION')
    if t == 'action_ex':
        v.update(name=NAME, task_execution_id=a['task_ex'], spec={})
    if forge:
        v['project_id'] = PID['A']
    return v


def db_ops(s):
    """Every tenant-facing db_api function of the setup's type, with the
    argument variants (by name / by id / filters / fields / forged
    project_id)."""
    t = s.typ
    rid = s.ids['A']
    ops = []

    def op(fn, variant, build, mode=None, sel=None):
        ops.append(Op(fn, variant, build, mode, sel))

    def lists(fn, extra=()):
        op(fn, '', lambda c: ((), {}), 'many', _all)
        op(fn, 'name=eq', lambda c: ((), {'name': {'eq': NAME}}), 'many',
           lambda s_, pre: rows(pre, s.table, lambda r: r['name'] == NAME))
        op(fn, 'project_id=A', lambda c: ((), {'project_id': PID['A']}),
           'many',
           _f('project_id', PID['A']))
        op(fn, 'id=in', lambda c: ((), {'id': {'in': sorted(
            s.ids.values())}}), 'many',
           lambda s_, pre: rows(pre, s.table,
                                lambda r: r['id'] in s.ids.values()))
        op(fn, 'scope=private', lambda c: ((), {'scope': 'private'}), 'many',
           _f('scope', 'private'))
        op(fn, 'paged', lambda c: ((), {'limit': 10, 'sort_keys': ['id'],
                                       'sort_dirs': ['asc']}), 'many', _all)
        op(fn, 'fields', lambda c: ((), {'fields': ['id', 'name']}), 'many',
           _all)
        for variant, kw, sel in extra:
            op(fn, variant, (lambda kw_: lambda c: ((), dict(kw_)))(kw),
               'many', sel)

    def deletes(fn):
        op(fn, '', lambda c: ((), {}))
        op(fn, 'name', lambda c: ((), {'name': NAME}))
        op(fn, 'id', lambda c: ((), {'id': rid}))
        op(fn, 'project_id=A', lambda c: ((), {'project_id': PID['A']}))

    def forge(fn):
        op(fn, 'same-name', lambda c: ((_new_vals(s, c, False),), {}))
        op(fn, 'forged-project', lambda c: ((_new_vals(s, c, True),), {}))
        if t in ('cron_trigger', 'event_trigger'):
            # the values carry A's workflow id: the scoped lookup of the
            # workflow is the job of services.triggers (REST level)
            ops[-2].synthetic = True

    U = lambda c: _vals(s, c)                 # noqa: E731
    US = lambda c: _vals(s, c, steal=True)    # noqa: E731

    if t == 'workbook':
        op('get_workbook', 'name', lambda c: ((NAME, ''), {}), 'one',
           _by_name)
        op('load_workbook', 'name', lambda c: ((NAME, ''), {}), 'one',
           _by_name)
        lists('get_workbooks')
        op('update_workbook', 'name', lambda c: ((NAME, U(c)), {}))
        op('update_workbook', 'name,steal', lambda c: ((NAME, US(c)), {}))
        op('create_or_update_workbook', 'name',
           lambda c: ((NAME, U(c)), {}))
        op('delete_workbook', 'name', lambda c: ((NAME, ''), {}))
        deletes('delete_workbooks')
        forge('create_workbook')
    elif t == 'workflow':
        op('get_workflow_definition', 'name', lambda c: ((NAME,), {}), 'one',
           _by_name)
        op('get_workflow_definition', 'id', lambda c: ((rid,), {}), 'one',
           _by_id)
        op('get_workflow_definition', 'id,fields',
           lambda c: ((rid,), {'fields': ['id', 'name']}), 'one', _by_id)
        op('get_workflow_definition_by_id', 'id', lambda c: ((rid,), {}),
           'one', _by_id)
        op('load_workflow_definition', 'name', lambda c: ((NAME,), {}),
           'one', _by_name)
        lists('get_workflow_definitions')
        for v in ('name', 'id'):
            ident = NAME if v == 'name' else rid
            op('update_workflow_definition', v,
               (lambda i: lambda c: ((i, U(c)), {}))(ident))
            op('update_workflow_definition', v + ',steal',
               (lambda i: lambda c: ((i, US(c)), {}))(ident))
            op('delete_workflow_definition', v,
               (lambda i: lambda c: ((i,), {}))(ident))
        op('create_or_update_workflow_definition', 'name',
           lambda c: ((NAME, U(c)), {}))
        deletes('delete_workflow_definitions')
        forge('create_workflow_definition')
        if s.share != 'none':
            op('get_resource_member', 'M',
               lambda c: ((rid, 'workflow', PID['M']), {}))
            op('get_resource_member', 'self',
               lambda c: ((rid, 'workflow', CALLERS[c].project), {}))
            op('get_resource_members', '', lambda c: ((rid, 'workflow'), {}))
            op('update_resource_member', 'M,accept',
               lambda c: ((rid, 'workflow', PID['M'],
                           {'status': 'accepted'}),
                          {}))
            op('update_resource_member', 'self,accept',
               lambda c: ((rid, 'workflow', CALLERS[c].project,
                           {'status': 'accepted'}), {}))
            op('delete_resource_member', 'M',
               lambda c: ((rid, 'workflow', PID['M']), {}))
    elif t == 'action':
        op('get_action_definition_by_id', 'id', lambda c: ((rid,), {}),
           'one', _by_id)
        op('get_action_definition', 'name', lambda c: ((NAME,), {}), 'one',
           _by_name)
        op('get_action_definition', 'id', lambda c: ((rid,), {}), 'one',
           _by_id)
        op('get_action_definition', 'id,fields',
           lambda c: ((rid,), {'fields': ['id', 'name']}), 'one', _by_id)
        op('load_action_definition', 'name', lambda c: ((NAME,), {}), 'one',
           _by_name)
        lists('get_action_definitions')
        for v in ('name', 'id'):
            ident = NAME if v == 'name' else rid
            op('update_action_definition', v,
               (lambda i: lambda c: ((i, U(c)), {}))(ident))
            op('delete_action_definition', v,
               (lambda i: lambda c: ((i,), {}))(ident))
        op('update_action_definition', 'name,steal',
           lambda c: ((NAME, US(c)), {}))
        op('create_or_update_action_definition', 'name',
           lambda c: ((NAME, U(c)), {}))
        deletes('delete_action_definitions')
        forge('create_action_definition')
    elif t in ('code_source', 'dynamic_action'):
        sfx = ('code_source' if t == 'code_source'
               else 'dynamic_action_definition')
        for v in ('name', 'id'):
            ident = NAME if v == 'name' else rid
            sel = _by_name if v == 'name' else _by_id
            op('get_' + sfx, v, (lambda i: lambda c: ((i,), {}))(ident),
               'one', sel)
            op('load_' + sfx, v, (lambda i: lambda c: ((i,), {}))(ident),
               'one', sel)
            op('update_' + sfx, v,
               (lambda i: lambda c: ((i, U(c)), {}))(ident))
            op('delete_' + sfx, v, (lambda i: lambda c: ((i,), {}))(ident))
        op('get_' + sfx, 'id,fields',
           lambda c: ((rid,), {'fields': ['id', 'name']}), 'one', _by_id)
        op('update_' + sfx, 'name,steal', lambda c: ((NAME, US(c)), {}))
        lists('get_%ss' % sfx)
        deletes('delete_%ss' % sfx)
        if t == 'code_source':
            forge('create_code_source')
    elif t == 'environment':
        op('get_environment', 'name', lambda c: ((NAME,), {}), 'one',
           _by_name)
        op('load_environment', 'name', lambda c: ((NAME,), {}), 'one',
           _by_name)
        lists('get_environments')
        op('update_environment', 'name', lambda c: ((NAME, U(c)), {}))
        op('update_environment', 'name,steal',
           lambda c: ((NAME, US(c)), {}))
        op('create_or_update_environment', 'name',
           lambda c: ((NAME, U(c)), {}))
        op('delete_environment', 'name', lambda c: ((NAME,), {}))
        deletes('delete_environments')
        forge('create_environment')
    elif t == 'cron_trigger':
        wfid = s.aux['A']['wf']
        for v in ('name', 'id'):
            ident = NAME if v == 'name' else rid
            sel = _by_name2 if v == 'name' else _by_id
            op('get_cron_trigger', v,
               (lambda i: lambda c: ((i,), {}))(ident), 'one', sel)
            op('load_cron_trigger', v,
               (lambda i: lambda c: ((i,), {}))(ident), 'one', sel)
            op('update_cron_trigger', v,
               (lambda i: lambda c: ((i, U(c)), {}))(ident))
            op('delete_cron_trigger', v,
               (lambda i: lambda c: ((i,), {}))(ident))
        op('get_cron_trigger_by_id', 'id', lambda c: ((rid,), {}), 'one',
           _by_id)
        op('update_cron_trigger', 'id,query_filter',
           lambda c: ((rid, {'remaining_executions': 7},
                       {'name': NAME}), {}))
        op('update_cron_trigger', 'name,steal',
           lambda c: ((NAME, US(c)), {}))
        op('create_or_update_cron_trigger', 'name',
           lambda c: ((NAME, U(c)), {}))
        ops[-1].synthetic = True      # values carry A's workflow id
        lists('get_cron_triggers', [
            ('workflow_id=A', {'workflow_id': wfid},
             _f('workflow_id', wfid))])
        deletes('delete_cron_triggers')
        forge('create_cron_trigger')
    elif t == 'event_trigger':
        wfid = s.aux['A']['wf']
        op('get_event_trigger', 'id', lambda c: ((rid,), {}), 'one', _by_id)
        op('load_event_trigger', 'id', lambda c: ((rid,), {}), 'one',
           _by_id)
        op('get_event_trigger', 'id,fields',
           lambda c: ((rid,), {'fields': ['id', 'name']}), 'one', _by_id)
        lists('get_event_triggers', [
            ('workflow_id=A', {'workflow_id': wfid},
             _f('workflow_id', wfid))])
        op('update_event_trigger', 'id', lambda c: ((rid, U(c)), {}))
        op('update_event_trigger', 'id,steal',
           lambda c: ((rid, US(c)), {}))
        deletes('delete_event_triggers')
        forge('create_event_trigger')
    else:
        sfx = {'wf_ex': 'workflow_execution', 'task_ex': 'task_execution',
               'action_ex': 'action_execution'}[t]
        a = s.aux['A']
        op('get_' + sfx, 'id', lambda c: ((rid,), {}), 'one', _by_id)
        op('load_' + sfx, 'id', lambda c: ((rid,), {}), 'one', _by_id)
        op('get_' + sfx, 'id,fields',
           lambda c: ((rid,), {'fields': ['id', 'name']}), 'one', _by_id)
        extra = [('state', {'state': 'SUCCESS'}, _f('state', 'SUCCESS'))]
        if t == 'wf_ex':
            extra.append(('workflow_id=A', {'workflow_id': a['wf']},
                          _f('workflow_id', a['wf'])))
        if t == 'task_ex':
            extra.append(('workflow_execution_id=A',
                          {'workflow_execution_id': a['wf_ex']},
                          _f('workflow_execution_id', a['wf_ex'])))
        if t == 'action_ex':
            extra.append(('task_execution_id=A',
                          {'task_execution_id': a['task_ex']},
                          _f('task_execution_id', a['task_ex'])))
        lists('get_%ss' % sfx, extra)
        op('update_' + sfx, 'id', lambda c: ((rid, U(c)), {}))
        op('update_' + sfx, 'id,steal', lambda c: ((rid, US(c)), {}))
        op('create_or_update_' + sfx, 'id', lambda c: ((rid, U(c)), {}))
        op('delete_' + sfx, 'id', lambda c: ((rid,), {}))
        deletes('delete_%ss' % sfx)
        forge('create_' + sfx)
    return ops


def _by_name2(s, pre):
    return rows(pre, s.table, lambda r: r['name'] == NAME)


# db_api functions that are not tenant-facing data access (reason)
EXCLUDED = {
    'engine/service internals on rows the engine already holds (unscoped by '
    'design, not addressable by a tenant)': [
        'update_workflow_execution_state', 'update_task_execution_state',
        'update_action_execution_heartbeat', 'get_task_executions_count',
        'get_completed_task_executions',
        'get_completed_task_executions_as_batches',
        'get_incomplete_task_executions',
        'get_incomplete_task_executions_count', 'get_next_cron_triggers',
        'get_expired_executions',
        'get_running_expired_sync_action_executions',
        'get_superfluous_executions', 'acquire_lock', 'refresh',
        'expire_all'],
    'unscoped primitive whose only callers fetch the row through a scoped '
    'read first; enumerated at the REST level (DELETE /event_triggers/<id>, '
    'DELETE /workflows/<id>)': [
        'delete_event_trigger', 'delete_resource_members'],
    'primitive used by the REST member controller after a scoped read of '
    'the workflow; enumerated at the REST level (POST '
    '/workflows/<id>/members)': ['create_resource_member'],
    'needs a code source of the caller; enumerated at the REST level (POST '
    '/dynamic_actions)': ['create_dynamic_action_definition'],
    'tables without tenant data (scheduler, locks, maintenance) and '
    'transaction control': [
        'get_delayed_calls_to_start', 'get_overdue_calls',
        'create_delayed_call', 'delete_delayed_call', 'update_delayed_call',
        'get_delayed_call', 'get_delayed_calls', 'get_delayed_calls_count',
        'delete_delayed_calls', 'get_scheduled_jobs_to_start',
        'create_scheduled_job', 'delete_scheduled_job',
        'update_scheduled_job', 'get_scheduled_job', 'get_scheduled_jobs',
        'delete_scheduled_jobs', 'get_scheduled_jobs_count',
        'create_named_lock', 'get_named_locks', 'delete_named_lock',
        'named_lock', 'get_maintenance_status', 'update_maintenance_status',
        'setup_db', 'drop_db', 'start_tx', 'commit_tx', 'rollback_tx',
        'end_tx', 'transaction'],
}


def api_functions():
    return sorted(n for n, f in vars(db_api).items()
                  if inspect.isfunction(f) and not n.startswith('_')
                  and f.__module__ == db_api.__name__)


def catalogue_gaps():
    """db_api functions neither enumerated nor excluded (must be empty)."""
    covered = set()
    for typ in M.TABLES:
        s = Setup(typ, 'private', 'none',
                  'pending' if typ == 'workflow' else 'none')
        s.ids = {'A': 'x'}
        s.aux = {'A': {'wf': 'x', 'wf_ex': 'x', 'task_ex': 'x', 'cs': 'x'}}
        covered |= set(o.fn for o in db_ops(s))
    excl = set(x for v in EXCLUDED.values() for x in v)
    fns = set(api_functions())
    return sorted(fns - covered - excl), sorted((covered | excl) - fns), \
        len(covered), len(excl)


# ------------------------------------------------------------------ tracing
TRACE = {'on': None}


def _install_trace():
    import functools
    for n in api_functions():
        f = getattr(db_api, n)
        if getattr(f, '_c15', False):
            continue

        def mk(f, n):
            @functools.wraps(f)
            def w(*a, **kw):
                if TRACE['on'] is not None:
                    TRACE['on'].add(n)
                return f(*a, **kw)
            w._c15 = True
            return w
        setattr(db_api, n, mk(f, n))


_install_trace()


class Derived(object):
    """A state reached from a setup by one more operation."""

    def __init__(self, s, first):
        self.__dict__.update(s.__dict__)
        self.base, self.first = s, first
        self.snap = env.raw_conn().serialize()
        self.pre = M.dump(env.raw_conn())
        self.ids_n = env.Ids.n

    key = property(lambda self: self.base.key + '+' + self.first)
    restore = Setup.restore
    spec = Setup.spec


# ------------------------------------------------------------------ runner
def run_db_op(s, op, who):
    """Execute one db_api call as `who` on the setup state. -> observation"""
    s.restore()
    caller = CALLERS[who]
    args, kwargs = op.build(who)
    obs = {'exc': None, 'ids': [], 'any': False}

    def body():
        with db_api.transaction():
            r = getattr(db_api, op.fn)(*args, **kwargs)
            if inspect.isgenerator(r):
                r = list(r)
            obs['ids'] = extract_ids(r)
            obs['any'] = bool(r) if isinstance(r, (list, tuple)) \
                else r is not None

    try:
        env.with_ctx(body, ctx_of(who))
    except (mexc.MistralException, mexc.MistralError) as e:
        obs['exc'] = type(e).__name__
    except Exception as e:  # noqa
        obs['exc'] = 'OTHER:' + type(e).__name__
        obs['err'] = str(e)[:300]
    post = M.dump(env.raw_conn())
    pre = s.pre
    required = op.sel(s, pre) if op.sel else None
    br = M.judge(pre, post, caller, returned_ids=obs['ids'],
                 required=required, mode=op.mode,
                 returned_anything=obs['any'] and not obs['exc'])
    obs['post_hash'] = M.state_hash(post)
    obs['changed'] = post != pre
    obs['req_ids'] = [i for _, i in (required or [])]
    obs['expect_visible'] = bool(required) and any(
        M.must_see(pre, t, pre[t][i], caller) for t, i in required)
    obs['expect_hidden'] = bool(required) and not any(
        M.visible(pre, t, pre[t][i], caller) for t, i in required)
    return obs, br
