"""Engine-explorer scenarios: one workflow program + input + result table."""
import json

from mc import env
from mc.explore import Scenario

FINAL = ('SUCCESS', 'ERROR', 'CANCELLED')
TASK_FINAL = ('SUCCESS', 'ERROR', 'CANCELLED', 'SKIPPED')


def jl(s):
    try:
        return json.loads(s) if isinstance(s, str) else s
    except ValueError:
        return s


def outcome_of(snap, with_ctx=True):
    """Canonical terminal outcome of a run: workflow states/outputs and
    tasks with state, published variables, flags and results."""
    sub = env.make_sub(env.id_labels(snap))
    wfs = []
    for r in snap['workflow_executions_v2']:
        wfs.append({
            'wf': sub(r['id']), 'name': r['name'], 'state': r['state'],
            'output': jl(sub(r['output'] or 'null')),
            'parent_task': sub(r['task_execution_id'] or ''),
        })
    acts = {}
    for a in snap['action_executions_v2']:
        acts.setdefault(a['task_execution_id'], []).append(a)
    subwf = {}
    for r in snap['workflow_executions_v2']:
        if r['task_execution_id']:
            subwf.setdefault(r['task_execution_id'], []).append(r)
    tasks = []
    for t in snap['task_executions_v2']:
        res = []
        for a in acts.get(t['id'], []):
            if a['accepted']:
                rc = jl(a['runtime_context']) or {}
                res.append((rc.get('index', 0), a['state'],
                            jl(sub(a['output'] or 'null'))))
        for w in subwf.get(t['id'], []):
            rc = jl(w['runtime_context']) or {}
            res.append((rc.get('index', 0), w['state'],
                        jl(sub(w['output'] or 'null'))))
        res.sort(key=lambda x: x[0])
        d = {
            'task': sub(t['id']), 'name': t['name'], 'state': t['state'],
            'processed': t['processed'], 'has_next': t['has_next_tasks'],
            'error_handled': t['error_handled'],
            'published': jl(sub(t['published'] or 'null')),
            'results': res,
        }
        if with_ctx:
            ic = jl(sub(t['in_context'] or 'null'))
            if isinstance(ic, dict):
                ic = {k: v for k, v in ic.items() if not k.startswith('__')}
            d['in_context'] = ic
        tasks.append(d)
    tasks.sort(key=lambda d: d['task'])
    wfs.sort(key=lambda d: d['wf'])
    return {'wfs': wfs, 'tasks': tasks}


class WfScenario(Scenario):
    """Start one workflow and let everything be delivered."""

    def __init__(self, name, yaml_text, wf='wf', wf_input=None, results=None,
                 params=None, overrides=None, scheduler='legacy',
                 workbook=False, meta=None, expect_paused=False,
                 n_sched=1, clear_caches=False, rp=False, copies=1):
        self.name = name
        self.yaml = yaml_text
        self.wf = wf
        self.wf_input = wf_input or {}
        self.results = results or {}
        self.params = params or {}
        self.overrides = overrides or []
        self.scheduler = scheduler
        self.workbook = workbook
        self.meta = meta or {}
        self.expect_paused = expect_paused
        self.n_sched = n_sched
        self.clear_caches = clear_caches
        self.rp = rp            # transactions may overlap (env._rp_point)
        self.copies = copies    # executions of the workflow started at once

    def spec(self):
        return ('mc.wfscn', type(self).__name__, self.kwargs())

    def kwargs(self):
        return dict(name=self.name, yaml_text=self.yaml, wf=self.wf,
                    wf_input=self.wf_input, results=self.results,
                    params=self.params,
                    overrides=[list(o) for o in self.overrides],
                    scheduler=self.scheduler, workbook=self.workbook,
                    meta=self.meta, expect_paused=self.expect_paused,
                    n_sched=self.n_sched, clear_caches=self.clear_caches,
                    rp=self.rp, copies=self.copies)

    def describe(self):
        return {'name': self.name, 'workflow': self.yaml,
                'input': self.wf_input, 'results': self.results,
                'params': self.params, 'scheduler': self.scheduler,
                'overrides': [list(o) for o in self.overrides],
                'transactions_may_overlap_before_their_first_write': self.rp}

    def setup(self):
        env.reset(results=self.results, overrides=self.overrides,
                  scheduler=self.scheduler, n_sched=self.n_sched)
        nsmap = (self.meta or {}).get('namespaces')
        if self.workbook:
            env.with_ctx(lambda: env.wb_service.create_workbook_v2(self.yaml))
        elif nsmap:
            # every workflow of the file is created in its own namespace
            import yaml as _yaml
            doc = _yaml.safe_load(self.yaml)
            for wname, body in doc.items():
                if wname == 'version':
                    continue
                one = _yaml.safe_dump({'version': '2.0', wname: body},
                                      sort_keys=False)
                for ns in nsmap.get(wname, ['']):
                    env.with_ctx(lambda one=one, ns=ns:
                                 env.wf_service.create_workflows(
                                     one, namespace=ns))
        else:
            env.with_ctx(lambda: env.wf_service.create_workflows(self.yaml))
        env.W.clear_caches = self.clear_caches
        self.start()
        env.W.rp = self.rp

    def start(self):
        for _ in range(self.copies):
            env.post('start_workflow', wf_identifier=self.wf,
                     wf_namespace=(self.meta or {}).get('root_namespace',
                                                        ''),
                     wf_ex_id=None, wf_input=dict(self.wf_input),
                     description='', params=dict(self.params))

    # ---- generic oracles (C01 a, b, d) --------------------------------
    def check_step(self, pre, post, choice, ctx):
        v = []
        for where, cls, is_mistral, text in ctx.new_exceptions:
            if not is_mistral:
                v.append('engine entry point failed with undeclared error '
                         '%s at %s: %s' % (cls, where, text))
        if post.get('named_locks'):
            v.append('named lock left behind after a transaction: %s'
                     % post['named_locks'])
        return v

    def check_terminal(self, snap, ctx):
        v = []
        for r in snap['workflow_executions_v2']:
            ok = r['state'] in FINAL or (
                self.expect_paused and r['state'] == 'PAUSED')
            if not ok:
                v.append('quiescent but workflow execution %s is %s '
                         '(nothing pending)' % (r['name'], r['state']))
        paused = any(r['state'] == 'PAUSED'
                     for r in snap['workflow_executions_v2'])
        wf_state = {r['id']: r['state']
                    for r in snap['workflow_executions_v2']}
        for t in snap['task_executions_v2']:
            if t['state'] not in TASK_FINAL:
                ws = wf_state.get(t['workflow_execution_id'])
                if paused and self.expect_paused:
                    continue
                if ws in FINAL and t['state'] in ('IDLE', 'WAITING'):
                    # a task that was never started in a workflow that was
                    # explicitly finished (fail/succeed command, stop)
                    continue
                v.append('quiescent but task %s is %s in a %s workflow'
                         % (t['name'], t['state'], ws))
        key = json.dumps(outcome_of(snap), sort_keys=True, default=str)
        return key, v


class ProgScenario(WfScenario):
    """A generated program (mc.wfgen representation) checked against the
    reference model: the terminal outcome must be one the language allows."""

    def __init__(self, name, prog, results=None, wf_input=None, jinja=False,
                 compare_output=True, check_prereq=False, compare_ctx=True,
                 warmup=None, update_to=None, **kw):
        from mc import wfgen
        # update_to: a program the *definition* is changed to while the
        # explored run is in flight (offered as an external choice at every
        # point, once); the run itself must keep following `prog`
        self.update_to = update_to
        # warmup: {'prog': ..., 'results': ...} - an earlier version of the
        # definition that is created and run to completion first; the
        # definition is then updated to `prog` and the explored run starts
        # (what the engine cached for the first version must not leak)
        self.warmup = warmup
        self.prog = prog
        self.jinja = jinja
        self.compare_output = compare_output
        self.check_prereq = check_prereq
        self.compare_ctx = compare_ctx
        kw.pop('yaml_text', None)
        super(ProgScenario, self).__init__(
            name, wfgen.render(prog, jinja=jinja), results=results,
            wf_input=wf_input, **kw)
        self._model = None

    def kwargs(self):
        d = super(ProgScenario, self).kwargs()
        d.pop('yaml_text')
        d.update(prog=self.prog, jinja=self.jinja,
                 compare_output=self.compare_output,
                 check_prereq=self.check_prereq,
                 compare_ctx=self.compare_ctx, warmup=self.warmup,
                 update_to=self.update_to)
        return d

    def externals(self):
        out = super(ProgScenario, self).externals()
        if self.update_to is not None and \
                not env.W.extra.get('def_updated') and \
                cmd_rows("select count(*) from workflow_executions_v2"):
            from mc import wfgen

            def do():
                env.W.extra['def_updated'] = True
                env.set_clock(env.W.clock)
                env.with_ctx(lambda: env.wf_service.update_workflows(
                    wfgen.render(self.update_to, jinja=self.jinja)))
            out.append(env.Choice('X:update-definition', 'ext', do,
                                  10 ** 9 + 8,
                                  'the workflow definition is updated '
                                  'while the run is in flight', cost=0,
                                  tag='update_def'))
        return out

    def extra_state(self):
        base = super(ProgScenario, self).extra_state()
        if self.update_to is None:
            return base
        return [base, bool(env.W.extra.get('def_updated'))]

    def model(self):
        if self._model is None:
            from mc import refmodel
            if self.prog.get('type') == 'reverse':
                self._model = refmodel.reverse_outcomes(
                    self.prog, self.params['task_name'], self.results)
            else:
                self._model = refmodel.allowed_outcomes(
                    self.prog, self.wf_input, self.results,
                    env=(self.params or {}).get('env'))
        return self._model

    def setup(self):
        self.model()
        if not self.warmup:
            return super(ProgScenario, self).setup()
        from mc import wfgen
        from mistral.db.v2 import api as db_api
        w = self.warmup
        env.reset(results=w.get('results') or {}, overrides=self.overrides,
                  scheduler=self.scheduler, n_sched=self.n_sched)
        env.with_ctx(lambda: env.wf_service.create_workflows(
            wfgen.render(w['prog'], jinja=self.jinja)))
        env.post('start_workflow', wf_identifier=self.wf, wf_namespace='',
                 wf_ex_id=None, wf_input=dict(w.get('input') or {}),
                 description='', params={})
        for _ in range(400):
            ch = env.enabled_choices()
            if ch:
                env.step(ch[0])
                continue
            t = env.next_clock_event()
            if t is None or t > 600:
                break
            env.set_clock(t)
        # the definition is updated, the finished run is removed

        def upd():
            env.wf_service.update_workflows(self.yaml)
            with db_api.transaction():
                for wx in db_api.get_workflow_executions():
                    if not wx.task_execution_id:
                        db_api.delete_workflow_execution(wx.id)
        env.set_clock(env.W.clock + 5)
        env.with_ctx(upd)
        env.W.results = dict(self.results or {})
        env.W.runs = {}
        del env.W.exceptions[:]
        del env.W.msg_log[:]
        del env.W.run_log[:]
        env.W.clear_caches = self.clear_caches
        self.start()
        env.W.rp = self.rp

    def describe(self):
        d = super(ProgScenario, self).describe()
        d['model_outcomes'] = len(self.model()['outcomes'])
        d['confluent'] = self.model()['confluent']
        return d

    # ---- C04: prerequisites of every task start ---------------------------
    def check_step(self, pre, post, choice, ctx):
        v = super(ProgScenario, self).check_step(pre, post, choice, ctx)
        if self.check_prereq:
            v.extend(prereq_violations(
                self.prog, pre, post,
                rerun=getattr(choice, 'is_rerun', False)))
        return v

    def check_terminal(self, snap, ctx):
        from mc import refmodel
        key, v = super(ProgScenario, self).check_terminal(snap, ctx)
        m = self.model()
        roots = [w for w in snap['workflow_executions_v2']
                 if not w['task_execution_id']]
        if not m['truncated'] and len(roots) > 1:
            # several executions of the same workflow side by side: each
            # one on its own must end as the language prescribes
            for r in roots:
                part = split_by_root(snap, r['id'])
                impl = refmodel.project_impl(outcome_of(part))
                if not any(refmodel.matches(impl, o, self.compare_output,
                                            self.compare_ctx)
                           for o in m['outcomes']):
                    v.append('one of %d concurrent executions of the same '
                             'workflow ended with an outcome the language '
                             'does not allow: impl=%s allowed=%s' % (
                                 len(roots),
                                 json.dumps(impl, sort_keys=True),
                                 json.dumps(m['outcomes'][:4],
                                            sort_keys=True)))
            return key, v
        if not m['truncated']:
            impl = refmodel.project_impl(outcome_of(snap))
            if not any(refmodel.matches(impl, o, self.compare_output,
                                        self.compare_ctx)
                       for o in m['outcomes']):
                v.append('terminal outcome is not one the workflow language '
                         'allows: impl=%s allowed=%s' % (
                             json.dumps(impl, sort_keys=True),
                             json.dumps(m['outcomes'][:4], sort_keys=True)))
        return key, v


COMPLETED = ('SUCCESS', 'ERROR', 'CANCELLED', 'SKIPPED')


def cmd_rows(sql):
    c = env.raw_conn().cursor()
    c.execute(sql)
    return c.fetchone()[0]


def split_by_root(snap, root_id):
    """The rows of one execution tree."""
    wids = set(w['id'] for w in snap['workflow_executions_v2']
               if w['id'] == root_id or w['root_execution_id'] == root_id)
    tids = set(t['id'] for t in snap['task_executions_v2']
               if t['workflow_execution_id'] in wids)
    out = dict(snap)
    out['workflow_executions_v2'] = [w for w in snap['workflow_executions_v2']
                                     if w['id'] in wids]
    out['task_executions_v2'] = [t for t in snap['task_executions_v2']
                                 if t['id'] in tids]
    out['action_executions_v2'] = [a for a in snap['action_executions_v2']
                                   if a['task_execution_id'] in tids]
    return out


def prereq_violations(prog, pre, post, rerun=False):
    """No task starts before its prerequisites; a join runs exactly once
    (transition oracle on two consecutive DB images)."""
    from mc import refmodel
    P = refmodel.Prog(prog)
    v = []
    root = [w for w in post['workflow_executions_v2']
            if not w['task_execution_id']]
    if not root:
        return v
    wid = root[0]['id']
    pre_t = {t['id']: t for t in pre['task_executions_v2']}
    tasks = [t for t in post['task_executions_v2']
             if t['workflow_execution_id'] == wid]
    by_name = {}
    for t in tasks:
        by_name.setdefault(t['name'], []).append(t)
    reverse = prog.get('type') == 'reverse'
    pre_a = set(a['id'] for a in pre['action_executions_v2'])
    acts = {}
    for a in post['action_executions_v2']:
        acts.setdefault(a['task_execution_id'], []).append(a)
    for t in tasks:
        spec = prog['tasks'].get(t['name'])
        if spec is None:
            v.append('task %s is not part of the definition' % t['name'])
            continue
        p = pre_t.get(t['id'])
        if reverse:
            if p is None:
                reqs = set(spec.get('requires') or []) | set(
                    (prog.get('task-defaults') or {}).get('requires') or [])
                reqs.discard(t['name'])
                for r in sorted(reqs):
                    ok = any(x['state'] == 'SUCCESS'
                             for x in by_name.get(r, []))
                    if not ok:
                        v.append('reverse workflow: task %s created although '
                                 'required task %s has not succeeded'
                                 % (t['name'], r))
                if len(by_name[t['name']]) > 1:
                    v.append('reverse workflow: task %s created twice'
                             % t['name'])
            continue
        j = spec.get('join')
        if not j:
            continue
        if len(by_name[t['name']]) > 1:
            v.append('join %s has %d task executions in one run'
                     % (t['name'], len(by_name[t['name']])))
        inb = P.inbound(t['name'])
        routed = 0
        for u in inb:
            for x in by_name.get(u, []):
                nt = jl(x['next_tasks']) or []
                if x['state'] in COMPLETED and any(
                        n[0] == t['name'] for n in nt):
                    routed += 1
                    break
        need = len(inb) if j == 'all' else (1 if j == 'one' else int(j))
        was = p['state'] if p else None
        if t['state'] == 'RUNNING' and was != 'RUNNING' \
                and was != 'DELAYED':
            if routed < need:
                v.append('join %s (join: %s) started with only %d of the %d '
                         'required inbound tasks completed and routed to it'
                         % (t['name'], j, routed, need))
        if p is not None and not rerun and was in COMPLETED \
                and t['state'] not in COMPLETED:
            v.append('join %s (join: %s) left its final state %s for %s: it '
                     'runs a second time in the same run'
                     % (t['name'], j, was, t['state']))
        n_act = len(acts.get(t['id'], []))
        new_act = [a for a in acts.get(t['id'], []) if a['id'] not in pre_a]
        retry = bool(spec.get('retry')) or bool(
            (prog.get('task-defaults') or {}).get('retry'))
        if new_act and n_act > 1 and not retry and not rerun:
            v.append('join %s (join: %s) started %d times in one run '
                     '(action created again)' % (t['name'], j, n_act))
    return v
