"""C14 - pure part: seeds, the structure-aware mutation space, YAML rendering
of mutated trees, and the small independent references (expression syntax,
literal anchors).  Nothing here imports mistral.

A *case* is (kind, text): kind in {'wf', 'wb', 'act'} selects the entry points
(workflow list / workbook / ad-hoc action list), text is the submitted
definition.  Texts are produced by

  seed text  --plain yaml.safe_load-->  tree  --one or two mutations-->
  tree'  --yaml.safe_dump (+ raw token substitution)-->  text

Mutation descriptors are JSON-able: [op, path, arg]
  op 'val'  : replace the node at path by VALUES[arg]
  op 'del'  : delete the node at path (dict entry or list item)
  op 'ins'  : insert INSERTS[arg] into the container at path
  op 'key'  : rename the dict key that ends path to KEYS[arg]
"""
import collections
import copy
import glob
import hashlib
import json
import os
import re

import yaml


# ------------------------------------------------------------------ catalogue
class Raw(object):
    """A value written verbatim into the YAML text (not representable by a
    python value through the dumper): anchors, aliases, tags, dates."""

    def __init__(self, text, plain):
        self.text = text        # what is written
        self.plain = plain      # what a loader that treats & and * as plain
        #                         text (and resolves standard tags) must yield

    def __repr__(self):
        return 'Raw(%r)' % self.text


LONG = 'x' * 300
UUID = '123e4567-e89b-12d3-a456-426655440000'

# name -> replacement value
VALUES = [
    ('null', None),
    ('true', True),
    ('int', 7),
    ('zero', 0),
    ('neg', -1),
    ('float', 1.5),
    ('list0', []),
    ('list1', ['x']),
    ('dict0', {}),
    ('dict1', {'k': 'v'}),
    ('str', 'x'),
    ('empty', ''),
    ('long', LONG),
    ('unicode', u'\u00fcn\u00ef-c\u00f4d\u00e9 \u2713'),
    ('yaql_ok', '<% $.x %>'),
    ('yaql_empty', '<% %>'),
    ('yaql_bad', '<% 1 + %>'),
    ('yaql_open', '<% 1 +'),
    ('jinja_ok', '{{ _.x }}'),
    ('jinja_empty', '{{ }}'),
    ('jinja_bad', '{{ 1 + }}'),
    ('jinja_block_bad', '{% for %}'),
    ('mixed', '<% $.x %> {{ _.x }}'),
    ('inline_bad', 'std.echo output="<% 1 + %>"'),
    ('inline_ok', 'std.echo output="<% $.x %>"'),
    ('spaces', 'a b'),
    ('dotted', 'a.b'),
    ('uuid', UUID),
    ('version', 'version'),
    ('nested_bad', {'k': ['<% 1 + %>']}),
    ('anchor', Raw('&a1 x', '&a1 x')),
    ('alias_pair', Raw('[&a1 x, *a1]', ['&a1 x', '*a1'])),
    ('date', Raw('2001-12-14', '__date__')),
    ('inf', Raw('.inf', float('inf'))),
    ('binary', Raw('!!binary aGk=', '__bytes__')),
    ('pytag', Raw('!!python/object/apply:os.getcwd []', '__error__')),
]
VALUE_BY_NAME = dict(VALUES)

# reduced catalogue for pairs of mutations
PAIR_VALUES = ['null', 'int', 'list1', 'dict1', 'str', 'yaql_bad',
               'jinja_bad', 'yaql_ok']

KEYS = [
    ('spaces', 'a b'),
    ('dotted', 'a.b'),
    ('dash', 'a-b'),
    ('uuid', UUID),
    ('long256', 'n' * 256),
    ('version', 'version'),
    ('name', 'name'),
    ('tasks', 'tasks'),
    ('workflows', 'workflows'),
    ('unicode', u'\u00fcn\u00ef'),
    ('empty', ''),
    ('yaql', '<% $.x %>'),
    ('int', 7),
    ('bool', True),
    ('null', None),
    ('float', 1.5),
]
KEY_BY_NAME = dict(KEYS)
PAIR_KEYS = ['dash', 'int', 'version']

INSERTS = [
    ('unknown_key', ('zz_unknown', 'v')),       # into dicts
    ('append_str', 'zz_extra'),                 # into lists
    ('append_dict2', {'a': 1, 'b': 2}),         # into lists
    ('dup_first', None),                        # into lists: repeat item 0
    # legal DSL keywords in places where they are unusual (into dicts)
    ('kw_type_reverse', ('type', 'reverse')),
    ('kw_type_direct', ('type', 'direct')),
    ('kw_join_all', ('join', 'all')),
    ('kw_requires', ('requires', [])),
    ('kw_description', ('description', 'zz d')),
    ('kw_keep_result', ('keep-result', False)),
]
KW_INSERTS = ['kw_type_reverse', 'kw_type_direct', 'kw_join_all',
              'kw_requires', 'kw_description', 'kw_keep_result']
INSERT_BY_NAME = dict(INSERTS)


# ------------------------------------------------------------------ tree ops
def walk(tree, path=()):
    """All nodes (path, value), parents first, in document order."""
    yield path, tree
    if isinstance(tree, dict):
        for k, v in tree.items():
            for x in walk(v, path + (k,)):
                yield x
    elif isinstance(tree, list):
        for i, v in enumerate(tree):
            for x in walk(v, path + (i,)):
                yield x


def _get(tree, path):
    for p in path:
        tree = tree[p]
    return tree


def _same(a, b):
    return type(a) is type(b) and a == b


def single_mutations(tree, values=None, keys=None, inserts=True):
    """Every single-node mutation of a tree (descriptors)."""
    out = []
    vnames = [n for n, _ in VALUES] if values is None else values
    knames = [n for n, _ in KEYS] if keys is None else keys
    for path, node in walk(tree):
        p = list(path)
        for n in vnames:
            v = VALUE_BY_NAME[n]
            if not isinstance(v, Raw) and _same(v, node):
                continue
            out.append(['val', p, n])
        if path:
            out.append(['del', p, None])
            if not isinstance(path[-1], int):
                for n in knames:
                    if _same(KEY_BY_NAME[n], path[-1]):
                        continue
                    if KEY_BY_NAME[n] in _get(tree, path[:-1]):
                        continue      # would silently drop a sibling
                    out.append(['key', p, n])
        if inserts:
            if isinstance(node, dict):
                out.append(['ins', p, 'unknown_key'])
                for kw in KW_INSERTS:
                    if INSERT_BY_NAME[kw][0] not in node:
                        out.append(['ins', p, kw])
            elif isinstance(node, list):
                out.append(['ins', p, 'append_str'])
                out.append(['ins', p, 'append_dict2'])
                if node:
                    out.append(['ins', p, 'dup_first'])
    return out


def apply_mutation(tree, mut):
    """Returns a new tree (None if the mutation does not apply)."""
    op, path, arg = mut
    path = list(path)
    t = copy.deepcopy(tree)
    if op == 'val':
        v = copy.deepcopy(VALUE_BY_NAME[arg])
        if not path:
            return v
        try:
            _get(t, path[:-1])[path[-1]] = v
        except (KeyError, IndexError, TypeError):
            return None
        return t
    try:
        parent = _get(t, path[:-1]) if path else None
        if op == 'del':
            del parent[path[-1]]
        elif op == 'key':
            newk = KEY_BY_NAME[arg]
            if not isinstance(parent, dict) or path[-1] not in parent \
                    or newk in parent:
                return None
            # keep the position of the key in the document
            items = [(newk if k == path[-1] and type(k) is type(path[-1])
                      else k, v) for k, v in parent.items()]
            parent.clear()
            parent.update(items)
        elif op == 'ins':
            node = _get(t, path)
            if arg == 'unknown_key' or arg.startswith('kw_'):
                if not isinstance(node, dict):
                    return None
                k, v = INSERT_BY_NAME[arg]
                if k in node:
                    return None
                node[k] = copy.deepcopy(v)
            else:
                if not isinstance(node, list):
                    return None
                if arg == 'dup_first':
                    if not node:
                        return None
                    node.append(copy.deepcopy(node[0]))
                else:
                    node.append(copy.deepcopy(INSERT_BY_NAME[arg]))
    except (KeyError, IndexError, TypeError):
        return None
    return t


def apply_mutations(tree, muts):
    for m in muts:
        tree = apply_mutation(tree, m)
        if tree is None:
            return None
    return tree


def independent(m1, m2):
    """Two mutations can be combined when neither path is a prefix of the
    other (deleting list items shifts indices: not below the same list)."""
    p1, p2 = list(m1[1]), list(m2[1])
    n = min(len(p1), len(p2))
    if p1[:n] == p2[:n]:
        return False
    for m, p, q in ((m1, p1, p2), (m2, p2, p1)):
        if m[0] == 'del' and isinstance(p[-1], int) and \
                q[:len(p) - 1] == p[:-1]:
            return False
    return True


# ------------------------------------------------------------------ render
class _Dumper(yaml.SafeDumper):
    def ignore_aliases(self, data):
        return True


def _strip_raw(tree, raws):
    if isinstance(tree, Raw):
        raws.append(tree)
        return 'ZZRAW%dZZ' % (len(raws) - 1)
    if isinstance(tree, dict):
        return {k: _strip_raw(v, raws) for k, v in tree.items()}
    if isinstance(tree, list):
        return [_strip_raw(v, raws) for v in tree]
    return tree


def expected_plain(tree):
    """The document a hardened loader must produce for render(tree)."""
    if isinstance(tree, Raw):
        return copy.deepcopy(tree.plain)
    if isinstance(tree, dict):
        return {k: expected_plain(v) for k, v in tree.items()}
    if isinstance(tree, list):
        return [expected_plain(v) for v in tree]
    return tree


def has_raw(tree, kinds=None):
    if isinstance(tree, Raw):
        return kinds is None or any(k in tree.text for k in kinds)
    if isinstance(tree, dict):
        return any(has_raw(v, kinds) for v in tree.values())
    if isinstance(tree, list):
        return any(has_raw(v, kinds) for v in tree)
    return False


def render(tree):
    raws = []
    plain = _strip_raw(tree, raws)
    text = yaml.dump(plain, Dumper=_Dumper, sort_keys=False,
                     default_flow_style=False, allow_unicode=True,
                     width=100000)
    if not isinstance(plain, (dict, list)) or not plain:
        # a scalar / empty document: drop the end-of-document marker
        text = text.replace('\n...\n', '\n')
    for i, r in enumerate(raws):
        text = text.replace('ZZRAW%dZZ' % i, r.text)
    return text


def sha(kind, text):
    return hashlib.sha1((kind + '\0' + text).encode('utf-8')).hexdigest()[:16]


# ------------------------------------------------------------------ text-level
def billion_laughs(levels=8, width=8):
    lines = ['a0: &a0 ["lol","lol","lol","lol","lol","lol","lol","lol"]']
    for i in range(1, levels):
        lines.append('a%d: &a%d [%s]' % (
            i, i, ','.join(['*a%d' % (i - 1)] * width)))
    return '\n'.join(lines) + '\n'


TEXTS = [
    ('empty', ''),
    ('blank', '   \n\n'),
    ('comment_only', '# nothing\n'),
    ('doc_marker', '---\n'),
    ('scalar_str', 'abc'),
    ('scalar_int', '42'),
    ('scalar_float', '2.0'),
    ('scalar_null', 'null'),
    ('scalar_tilde', '~'),
    ('scalar_true', 'true'),
    ('list_empty', '[]'),
    ('list_str', '- a\n- b\n'),
    ('list_of_dicts', '- version: "2.0"\n- wf: {tasks: {t: {}}}\n'),
    ('dict_empty', '{}'),
    ('only_version', 'version: "2.0"\n'),
    ('version_int', 'version: 2\nwf:\n  tasks:\n    t:\n      action: std.noop\n'),
    ('version_list', 'version: [2]\nwf:\n  tasks:\n    t:\n      action: std.noop\n'),
    ('version_v1', 'version: "1.0"\nwf:\n  tasks:\n    t:\n      action: std.noop\n'),
    ('no_version', 'wf:\n  tasks:\n    t:\n      action: std.noop\n'),
    ('unterminated_quote', 'version: "2.0\nwf: 1\n'),
    ('unterminated_flow', 'version: "2.0"\nwf: {tasks: {t: {action: std.noop}\n'),
    ('tab_indent', 'version: "2.0"\nwf:\n\ttasks:\n\t\tt: {}\n'),
    ('two_documents', 'version: "2.0"\n---\nversion: "2.0"\n'),
    ('yaml_directive', '%YAML 1.1\n---\nversion: "2.0"\nwf:\n  tasks:\n    t:\n      action: std.noop\n'),
    ('bad_directive', '%FOO bar\n---\nversion: "2.0"\n'),
    ('nul_byte', 'version: "2.0"\nwf: "\x00"\n'),
    ('bom', u'\ufeffversion: "2.0"\nwf:\n  tasks:\n    t:\n      action: std.noop\n'),
    ('control_char', 'version: "2.0"\nwf: \x07\n'),
    ('dup_keys', 'version: "2.0"\nwf:\n  tasks:\n    t: {action: std.noop}\n    t: {action: std.echo}\n'),
    ('complex_key', 'version: "2.0"\n? [a, b]\n: c\n'),
    ('dict_key', 'version: "2.0"\n? {a: b}\n: c\n'),
    ('merge_key', 'base: &b {action: std.noop}\nversion: "2.0"\nwf:\n  tasks:\n    t:\n      <<: *b\n'),
    ('python_tag', 'version: "2.0"\nwf: !!python/object/apply:os.getcwd []\n'),
    ('python_name_tag', '!!python/name:os.system\n'),
    ('set_tag', 'version: "2.0"\nwf: !!set {a, b}\n'),
    ('omap_tag', 'version: "2.0"\nwf: !!omap [a: 1]\n'),
    ('timestamp', 'version: "2.0"\nwf:\n  tasks:\n    t:\n      action: std.noop\n      input:\n        d: 2001-12-14t21:59:43.10-05:00\n'),
    ('undefined_alias', 'version: "2.0"\nwf: *nope\n'),
    ('anchor_alias_top', 'version: &v "2.0"\nwf: *v\n'),
    ('billion_laughs', billion_laughs()),
    ('deep_nesting', 'version: "2.0"\nwf: ' + '[' * 300 + ']' * 300 + '\n'),
    ('deep_dict', 'version: "2.0"\nwf: ' + '{a: ' * 200 + '1' + '}' * 200 + '\n'),
    ('long_line', 'version: "2.0"\nwf:\n  description: ' + 'd' * 200000 + '\n  tasks:\n    t:\n      action: std.noop\n'),
    ('many_tasks_inline', 'version: "2.0"\nwf:\n  tasks:\n' + ''.join(
        '    t%d: {action: std.noop}\n' % i for i in range(300))),
    ('regex_bait_action', 'version: "2.0"\nwf:\n  tasks:\n    t:\n      action: ' + 'a.' * 4000 + ' =\n'),
    ('regex_bait_params', 'version: "2.0"\nwf:\n  tasks:\n    t:\n      action: std.echo ' + 'k=[' * 3000 + '\n'),
    ('regex_bait_with_items', 'version: "2.0"\nwf:\n  tasks:\n    t:\n      action: std.noop\n      with-items: "' + 'x' + ' ' * 5000 + 'in' + ' ' * 5000 + '[" \n'),
    ('regex_bait_yaql', 'version: "2.0"\nwf:\n  tasks:\n    t:\n      action: std.noop\n      publish:\n        a: "' + '<% ' * 3000 + '"\n'),
    ('regex_bait_jinja', 'version: "2.0"\nwf:\n  tasks:\n    t:\n      action: std.noop\n      publish:\n        a: "' + '{{ ' * 3000 + '"\n'),
    ('regex_bait_next', 'version: "2.0"\nwf:\n  tasks:\n    t:\n      action: std.noop\n      on-success: "' + 'a' * 3000 + ' ' + 'b' * 3000 + '=' + '(' * 500 + '"\n    ' + 'a' * 10 + ': {}\n'),
    ('task_dash_name_scalar', 'version: "2.0"\nwf:\n  tasks:\n    a-b: 5\n'),
    ('task_dash_name_list', 'version: "2.0"\nwf:\n  tasks:\n    a-b: [1]\n    t:\n      action: std.noop\n'),
    ('wb_version_float', 'version: 2.0\nname: wb\nworkflows:\n  wf:\n    tasks:\n      t:\n        action: std.noop\n'),
    ('wb_name_only', 'version: "2.0"\nname: wb\n'),
    ('wb_workflows_list', 'version: "2.0"\nname: wb\nworkflows:\n- a\n'),
    ('wb_quoted_section', 'version: "2.0"\nname: wb\n"workflows":\n  wf:\n    tasks:\n      t:\n        action: std.noop\n'),
    ('wb_flow_style', '{version: "2.0", name: wb, workflows: {wf: {tasks: {t: {action: std.noop}}}}}\n'),
    ('wb_flow_member', 'version: "2.0"\nname: wb\nworkflows:\n  wf: {tasks: {t: {action: std.noop}}}\n'),
    ('wb_quoted_member', 'version: "2.0"\nname: wb\nworkflows:\n  "wf":\n    tasks:\n      t:\n        action: std.noop\n'),
    ('wb_member_trailing_space', 'version: "2.0"\nname: wb\nworkflows:\n  wf :\n    tasks:\n      t:\n        action: std.noop\n'),
    ('wb_member_comment', 'version: "2.0"\nname: wb\nworkflows:\n  wf: # the workflow\n    tasks:\n      t:\n        action: std.noop\n'),
    ('wb_section_in_description', 'version: "2.0"\nname: wb\ndescription: "see workflows: below"\nworkflows:\n  wf:\n    tasks:\n      t:\n        action: std.noop\n'),
    ('wb_task_named_like_wf', 'version: "2.0"\nname: wb\nworkflows:\n  wf1:\n    tasks:\n      wf2:\n        action: std.echo output=1\n  wf2:\n    tasks:\n      t:\n        action: std.noop\n'),
    ('wb_actions_after_workflows', 'version: "2.0"\nname: wb\nworkflows:\n  wf:\n    tasks:\n      t:\n        action: std.noop\nactions:\n  a1:\n    base: std.echo\n    base-input:\n      output: hi\n'),
    ('wb_action_named_like_wf', 'version: "2.0"\nname: wb\nactions:\n  x:\n    base: std.echo\n    base-input:\n      output: hi\nworkflows:\n  x:\n    tasks:\n      t:\n        action: std.noop\n'),
    ('wb_comments_and_blank', 'version: "2.0"\nname: wb\n\n# c0\nworkflows:\n\n  # c1\n  wf:\n# c2 at column 0\n    tasks:\n\n      t:\n        # c3\n        action: std.noop\n\n  wf2:\n    tasks:\n      t:\n        action: std.echo output=2\n'),
    ('wb_indent4', 'version: "2.0"\nname: wb\nworkflows:\n    wf:\n        tasks:\n            t:\n                action: std.noop\n    wf2:\n        tasks:\n            t:\n                action: std.echo output=2\n'),
    ('nested_date_in_input_default', 'version: "2.0"\nwf:\n  input:\n  - xs:\n    - 2001-12-14\n  tasks:\n    t:\n      action: std.noop\n'),
    ('nested_binary_in_input_default', 'version: "2.0"\nwf:\n  input:\n  - xs: {d: !!binary aGk=}\n  tasks:\n    t:\n      action: std.noop\n'),
    ('nested_date_in_task_input', 'version: "2.0"\nwf:\n  tasks:\n    t:\n      action: std.echo\n      input:\n        output: [2001-12-14 10:00:00]\n'),
    ('nested_date_in_action_base_input', 'version: "2.0"\na1:\n  base: std.echo\n  base-input:\n    output: [2001-12-14]\n'),
    ('nested_set_in_vars', 'version: "2.0"\nwf:\n  vars:\n    v: [!!set {a, b}]\n  tasks:\n    t:\n      action: std.noop\n'),
    ('wb_multiline_string', 'version: "2.0"\nname: wb\nworkflows:\n  wf:\n    description: |\n      line one\n      wf2:\n      line three\n    tasks:\n      t:\n        action: std.noop\n  wf2:\n    tasks:\n      t:\n        action: std.echo output=2\n'),
]


# ------------------------------------------------------------------ presentation
# Text-level variants of workbooks: the same document (or the same document
# up to the content of its free-text strings) written differently.  The
# workbook service cuts the text of every member out of the workbook text
# line by line, so comments, blank lines and block scalars at every position
# matter for "every workflow extracted from a workbook is the workflow
# written in the workbook".
PRES_BASES = [
    ('pwb', """\
version: "2.0"
name: pwb
description: presentation base
actions:
  act1:
    description: |
      first
      second
    base: std.echo
    base-input:
      output: |
        out1
        out2
  act2:
    base: std.noop
workflows:
  wf1:
    description: >
      folded one
      folded two
    input:
    - v: |
        in1
        in2
    tasks:
      t1:
        action: std.echo
        input:
          output: |
            body1
            body2
        on-success:
        - t2
      t2:
        action: std.noop
  wf2:
    tasks:
      t:
        action: std.echo output=2
"""),
    ('pwb4', """\
version: "2.0"
name: pwb4
workflows:
    wf1:
        description: |
            first
            second
        tasks:
            t1:
                action: std.noop
    wf2:
        tasks:
            t:
                action: std.echo output=2
actions:
    act1:
        base: std.echo
        base-input:
            output: |
                out1
                out2
"""),
]
PRES_COMMENT_INDENTS = (0, 1, 2, 4, 6, 8, 10, 12)
PRES_BLOCK_LINES = ['# x', '#', '#!/bin/sh', 'wf2:', 'act1:', 'workflows:',
                    '- x', 'k: v', '  deeper', '"q', '---']


def _block_content_lines(lines):
    """Indexes of the lines that are content of a block scalar."""
    out, i = set(), 0
    while i < len(lines):
        ln = lines[i]
        st = ln.rstrip()
        if st.endswith(('|', '>')) and (st.endswith((': |', ': >'))):
            ind = len(ln) - len(ln.lstrip())
            j = i + 1
            while j < len(lines) and (
                    not lines[j].strip() or
                    len(lines[j]) - len(lines[j].lstrip()) > ind):
                out.add(j)
                j += 1
            i = j
        else:
            i += 1
    return out


def presentations(base_text):
    """name -> text: every single line-level presentation edit."""
    lines = base_text.split('\n')
    if lines and lines[-1] == '':
        lines.pop()
    out = collections.OrderedDict()

    def emit(name, ls):
        out[name] = '\n'.join(ls) + '\n'
    for i in range(len(lines) + 1):
        for ind in PRES_COMMENT_INDENTS:
            emit('comment@%d/%d' % (i, ind),
                 lines[:i] + [' ' * ind + '# c'] + lines[i:])
        emit('blank@%d' % i, lines[:i] + [''] + lines[i:])
        emit('spaces@%d' % i, lines[:i] + ['   '] + lines[i:])
    block = _block_content_lines(lines)
    for i in range(len(lines)):
        emit('trail@%d' % i, lines[:i] + [lines[i] + '  '] + lines[i + 1:])
        if i in block and lines[i].strip():
            ind = len(lines[i]) - len(lines[i].lstrip())
            for k, c in enumerate(PRES_BLOCK_LINES):
                emit('block@%d/%d' % (i, k),
                     lines[:i] + [' ' * ind + c] + lines[i + 1:])
    emit('crlf', [ln + '\r' for ln in lines])
    emit('docstart', ['---'] + lines)
    emit('docend', lines + ['...'])
    return out


def _same_shape(a, b):
    """Same structure; string leaves may differ in content."""
    if isinstance(a, dict) and isinstance(b, dict):
        return list(a) == list(b) and all(_same_shape(a[k], b[k]) for k in a)
    if isinstance(a, list) and isinstance(b, list):
        return len(a) == len(b) and all(_same_shape(x, y)
                                        for x, y in zip(a, b))
    if isinstance(a, str) and isinstance(b, str):
        return True
    return type(a) is type(b) and a == b


def presentation_case(base_name, variant):
    """-> (text, expect): expect is 'accept' when an independent loader
    reads the variant as the base document up to the content of its
    strings, else None (no expectation: only totality / stability apply)."""
    base = dict(PRES_BASES)[base_name]
    text = presentations(base)[variant]
    try:
        ok = _same_shape(yaml.safe_load(base), yaml.safe_load(text))
    except yaml.YAMLError:
        ok = False
    return text, ('accept' if ok else None)


# ------------------------------------------------------------------ seeds
BUNDLED = [
    'mistral/tests/resources/*.yaml',
    'mistral/tests/resources/for_wf_namespace/*.yaml',
    'mistral/tests/resources/workbook/v2/*.yaml',
    'mistral/resources/actions/*.yaml',
    'mistral/resources/workflows/*.yaml',
    'rally-jobs/extra/*.yaml',
    'rally-jobs/extra/scenarios/*/*.yaml',
]
# bundled files that are not valid v2 definitions on purpose
BUNDLED_INVALID = ('mistral/tests/resources/wb_v1.yaml',
                   'rally-jobs/extra/scenarios/big_wf/deploy_wf.yaml')


def classify(tree):
    if not isinstance(tree, dict):
        return 'wf'
    if 'workflows' in tree or 'actions' in tree or 'name' in tree:
        return 'wb'
    members = [v for k, v in tree.items() if k != 'version']
    if members and all(isinstance(m, dict) and 'base' in m for m in members):
        return 'act'
    return 'wf'


def node_count(tree):
    return sum(1 for _ in walk(tree))


def _wf_body(text):
    d = yaml.safe_load(text)
    return d['wf']


def generated_seeds():
    """Definitions produced by the workflow generator (mc.wfgen)."""
    from mc import wfgen
    P = wfgen.curated()
    seeds = []
    for name, prog in P.items():
        seeds.append({'id': 'gen/%s' % name, 'kind': 'wf',
                      'text': wfgen.render(prog), 'expect': 'accept',
                      'tasks': len(prog['tasks']), 'prog': name,
                      'runnable': True, 'origin': 'generator'})
    for name in ('guard_var', 'publish_seq', 'publish_result',
                 'publish_guard', 'bad_guard', 'bad_output'):
        seeds.append({'id': 'genj/%s' % name, 'kind': 'wf',
                      'text': wfgen.render(P[name], jinja=True),
                      'expect': 'accept', 'tasks': len(P[name]['tasks']),
                      'prog': name, 'jinja': True, 'runnable': True,
                      'origin': 'generator'})
    # feature programs: policies, retry, with-items, advanced publish,
    # task-defaults, reverse - rendered by the same generator
    T, direct = wfgen.T, wfgen.direct
    extra = {
        'policies': direct({
            'a': T(**{'wait-before': 1, 'wait-after': 1, 'timeout': 30,
                      'retry': {'count': 2, 'delay': 1,
                                'break-on': ['false']},
                      'on-success': ['b']}),
            'b': T(**{'pause-before': False, 'safe-rerun': True,
                      'keep-result': False})}),
        'with_items': direct({
            'a': T(**{'with-items': 'i in [1, 2]', 'concurrency': 1})}),
        'adv_publish': direct({
            'a': T(publish={'v': ['lit', 1]},
                   **{'on-success-publish': {'branch': {'w': ['lit', 2]},
                                             'global': {'g': ['lit', 3]}},
                      'on-success': ['b']}),
            'b': T()}, output={'o': ['var', 'w']}),
        'defaults_policies': direct(
            {'a': T(**{'on-success': ['b']}), 'b': T()},
            **{'task-defaults': {'retry': {'count': 1, 'delay': 0},
                                 'timeout': 60, 'on-error': ['b']}}),
        'reverse2': {'type': 'reverse', 'tasks': {
            'a': T(), 'b': T(requires=['a'])}},
        'vars_input': direct(
            {'a': T(publish={'r': ['var', 'x']})},
            input={'v': 1, 'u': None}, vars={'x': ['var', 'v']},
            output={'o': ['var', 'r']},
            **{'output-on-error': {'e': ['lit', 'failed']}}),
    }
    for name, prog in extra.items():
        seeds.append({'id': 'gen/%s' % name, 'kind': 'wf',
                      'text': wfgen.render(prog), 'expect': 'accept',
                      'tasks': len(prog['tasks']), 'prog': None,
                      'runnable': True,
                      'run_params': ({'task_name': 'b'}
                                     if prog.get('type') == 'reverse'
                                     else None),
                      'origin': 'generator'})
    # every publish form at once: task level (per state) and inside each
    # on-clause (branch / global / atomic)
    seeds.append({'id': 'gen/publish_everywhere', 'kind': 'wf', 'text': '''\
version: '2.0'
wf:
  input:
  - v: 0
  tasks:
    a:
      action: std.noop
      publish:
        p: 1
      publish-on-error:
        e: 2
      publish-on-skip:
        s: 3
      on-success:
        publish:
          branch:
            ws: <% $.v %>
          global:
            gs: 1
        next:
        - b
      on-error:
        publish:
          branch:
            we: 1
          atomic:
            ae: 1
        next:
        - c
      on-complete:
        publish:
          branch:
            wc: 1
          global:
            gc: 1
        next:
        - d
      on-skip:
        publish:
          branch:
            wk: 1
        next:
        - b
    b:
      action: std.noop
      publish-on-error:
        e: 2
      on-complete:
        publish:
          branch:
            wc: 2
    c:
      action: std.noop
    d:
      action: std.noop
''', 'expect': 'accept', 'tasks': 4, 'origin': 'generator'})
    # a multi-workflow file and a workbook assembled from generated programs
    multi = {'version': '2.0'}
    for n in ('seq2', 'guard_var', 'diamond'):
        multi[n] = _wf_body(wfgen.render(P[n]))
    seeds.append({'id': 'gen/multi3', 'kind': 'wf', 'text': render(multi),
                  'expect': 'accept', 'tasks': 9, 'origin': 'generator'})
    wb = {'version': '2.0', 'name': 'gwb', 'description': 'generated',
          'tags': ['t1'],
          'actions': {'hello': {'base': 'std.echo',
                                'base-input': {'output': 'hi <% $.n %>'},
                                'input': ['n', {'m': 1}],
                                'output': '<% $ %>'}},
          'workflows': {}}
    for n in ('seq2', 'publish_guard', 'join_one'):
        wb['workflows'][n] = _wf_body(wfgen.render(P[n]))
    seeds.append({'id': 'gen/workbook', 'kind': 'wb', 'text': render(wb),
                  'expect': 'accept', 'tasks': 8, 'origin': 'generator'})
    wbs = {'version': '2.0', 'name': 'swb',
           'actions': {'hello': {'base': 'std.echo output="<% $.n %>"',
                                 'input': ['n']}},
           'workflows': {
               'first': _wf_body(wfgen.render(P['guard_true'])),
               'second': _wf_body(wfgen.render(P['single']))}}
    seeds.append({'id': 'gen/workbook_small', 'kind': 'wb',
                  'text': render(wbs), 'expect': 'accept', 'tasks': 3,
                  'origin': 'generator'})
    acts = {'version': '2.0',
            'greet': {'description': 'd', 'tags': ['x'],
                      'base': 'std.echo output="<% $.who %>"',
                      'input': ['who'], 'output': {'s': '<% $ %>'}},
            'bye': {'base': 'std.echo', 'base-input': {'output': 'bye'},
                    'output': '{{ _ }}'}}
    seeds.append({'id': 'gen/actions', 'kind': 'act', 'text': render(acts),
                  'expect': 'accept', 'tasks': 0, 'origin': 'generator'})
    return seeds


def bundled_seeds(tree_root):
    seeds = []
    seen = set()
    for pat in BUNDLED:
        for f in sorted(glob.glob(os.path.join(tree_root, pat))):
            rel = os.path.relpath(f, tree_root)
            if rel in seen:
                continue
            seen.add(rel)
            try:
                text = open(f, encoding='utf-8').read()
            except (IOError, OSError, UnicodeDecodeError):
                continue
            try:
                tree = yaml.safe_load(text)
            except yaml.YAMLError:
                tree = None
            seeds.append({
                'id': 'file/%s' % rel, 'kind': classify(tree), 'text': text,
                'expect': 'reject' if rel in BUNDLED_INVALID else 'accept',
                'tasks': None, 'origin': 'bundled'})
    return seeds


def seed_tree(seed):
    """Plain tree of a seed, or None if the seed cannot be mutated
    structurally (not a mapping, or uses YAML features a plain load and the
    render step would not preserve)."""
    try:
        t = yaml.safe_load(seed['text'])
    except yaml.YAMLError:
        return None
    if not isinstance(t, dict):
        return None
    try:
        json.dumps(t)
    except (TypeError, ValueError):
        return None
    return t


# ------------------------------------------------------------------ reference
# R1: expression-bearing fields that validation must syntax-check.  Only
# fields holding an expression *directly* (depth one) are listed.
YAQL_RE = re.compile(r'<%(.*?)%>')
JINJA_ANY_RE = re.compile(r'{{.*?}}|{%.*?%}')
INLINE_PARAM_RE = re.compile(
    r'[-\w]+=("[^"]*"|\'[^\']*\'|<%.*?%>|{{.*?}})')

_yaql_engine = []
_jinja_env = []


def expr_malformed(s):
    """None if every embedded expression of s parses, else a short reason.
    Uses the yaql and jinja2 libraries directly."""
    if not isinstance(s, str):
        return None
    if not _yaql_engine:
        import yaql
        import jinja2
        _yaql_engine.append(yaql.YaqlFactory().create())
        _jinja_env.append(jinja2.Environment())
    for m in YAQL_RE.finditer(s):
        body = m.group(0).strip('<%>')
        try:
            _yaql_engine[0](body)
        except Exception as e:      # noqa
            return 'yaql %r: %s' % (m.group(0)[:40], type(e).__name__)
    if JINJA_ANY_RE.search(s):
        import jinja2
        try:
            _jinja_env[0].parse(s)
        except jinja2.TemplateError as e:
            return 'jinja %r: %s' % (s[:40], type(e).__name__)
    return None


def _depth1(field, v, out):
    if isinstance(v, str):
        out.append((field, v))
    elif isinstance(v, dict):
        for k, x in v.items():
            if isinstance(x, str):
                out.append(('%s.%s' % (field, k), x))
    elif isinstance(v, list):
        for x in v:
            if isinstance(x, str):
                out.append((field + '[]', x))


def _inline(field, s, out):
    if isinstance(s, str) and ' ' in s:
        for m in INLINE_PARAM_RE.finditer(s):
            v = m.group(1)
            if v[:1] in '"\'':
                v = v[1:-1]
            out.append((field + '(inline)', v))


def _clause(field, c, out):
    """Guards of an on-clause (all documented forms)."""
    if isinstance(c, dict) and ('next' in c or 'publish' in c):
        pub = c.get('publish')
        if isinstance(pub, dict):
            for scope in ('branch', 'global', 'atomic'):
                if isinstance(pub.get(scope), dict):
                    _depth1('%s.publish.%s' % (field, scope), pub[scope],
                            out)
        c = c.get('next')
    if isinstance(c, dict):
        c = [c]
    if isinstance(c, list):
        for item in c:
            if isinstance(item, dict) and len(item) == 1:
                g = list(item.values())[0]
                if isinstance(g, str):
                    out.append((field + '.guard', g))


POLICY_KEYS = ('wait-before', 'wait-after', 'timeout', 'pause-before',
               'concurrency', 'fail-on')
CLAUSES = ('on-success', 'on-error', 'on-complete', 'on-skip')


def _policies(prefix, d, out):
    for k in POLICY_KEYS:
        if isinstance(d.get(k), str):
            out.append(('%s.%s' % (prefix, k), d[k]))
    r = d.get('retry')
    if isinstance(r, dict):
        for k in ('count', 'delay', 'break-on', 'continue-on'):
            if isinstance(r.get(k), str):
                out.append(('%s.retry.%s' % (prefix, k), r[k]))
    elif isinstance(r, str):
        _inline(prefix + '.retry', 'retry ' + r, out)


def wf_expr_fields(wf, is_direct=None):
    out = []
    if not isinstance(wf, dict):
        return out
    if is_direct is None:
        is_direct = wf.get('type', 'direct') == 'direct'
    _depth1('output', wf.get('output'), out) \
        if isinstance(wf.get('output'), dict) else None
    _depth1('vars', wf.get('vars'), out) \
        if isinstance(wf.get('vars'), dict) else None
    td = wf.get('task-defaults')
    if isinstance(td, dict):
        _policies('task-defaults', td, out)
        if isinstance(td.get('safe-rerun'), str):
            out.append(('task-defaults.safe-rerun', td['safe-rerun']))
        for c in CLAUSES:
            if c in td:
                _clause('task-defaults.' + c, td[c], out)
    tasks = wf.get('tasks')
    if isinstance(tasks, dict):
        for t in tasks.values():
            if not isinstance(t, dict):
                continue
            for k in ('action', 'workflow'):
                _inline('task.' + k, t.get(k), out)
            for k in ('input', 'publish', 'publish-on-error',
                      'publish-on-skip'):
                v = t.get(k)
                if isinstance(v, dict) or (k == 'input' and
                                           isinstance(v, str)):
                    _depth1('task.' + k, v, out)
            for k in ('keep-result', 'safe-rerun'):
                if isinstance(t.get(k), str):
                    out.append(('task.' + k, t[k]))
            _policies('task', t, out)
            if is_direct:
                for c in CLAUSES:
                    if c in t:
                        _clause('task.' + c, t[c], out)
    return out


def action_expr_fields(a):
    out = []
    if not isinstance(a, dict):
        return out
    _inline('action.base', a.get('base'), out)
    if isinstance(a.get('base-input'), dict):
        _depth1('action.base-input', a['base-input'], out)
    if isinstance(a.get('output'), str):
        out.append(('action.output', a['output']))
    return out


def expr_fields(kind, doc):
    """[(field, string)] of the directly expression-bearing fields of a
    parsed document of the given kind."""
    out = []
    if not isinstance(doc, dict):
        return out
    if kind == 'wf':
        for k, v in doc.items():
            if k != 'version':
                out.extend(wf_expr_fields(v))
    elif kind == 'act':
        for k, v in doc.items():
            if k != 'version':
                out.extend(action_expr_fields(v))
    else:
        wfs = doc.get('workflows')
        if isinstance(wfs, dict):
            for k, v in wfs.items():
                if k != 'version':
                    out.extend(wf_expr_fields(v))
        acts = doc.get('actions')
        if isinstance(acts, dict):
            for k, v in acts.items():
                if k != 'version':
                    out.extend(action_expr_fields(v))
    return out


def malformed_fields(kind, doc):
    bad = []
    for field, s in expr_fields(kind, doc):
        why = expr_malformed(s)
        if why:
            bad.append((field, why))
    return bad
