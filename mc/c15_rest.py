"""C15, REST level: the v2 routes that reach the db_api functions, driven
through the real pecan application (real hooks, real policy enforcer with the
default rules) with the headers keystonemiddleware sets after validating a
token (X-Identity-Status / X-Project-Id / X-Roles).  The engine behind the
REST layer is the real EngineServer endpoint called synchronously."""
import json

import pecan
from webtest import TestApp

from mc import env
from mc import c15_model as M
from mc import c15_world as W

from mistral.api import app as pecan_app
from mistral.api.hooks import maintenance, request_body
from mistral import context as auth_context
from mistral.services import security

NAME = W.NAME
_APP = []
RPC_LOG = []


# keystone itself is outside the system: trusts are opaque ids
class _Trust(object):
    def __init__(self, i):
        self.id = i


security.create_trust = lambda: _Trust(
    'trust-' + str(auth_context.ctx().project_id))
security.delete_trust = lambda trust_id=None: None


# RPC issued by the API process (no activity running): call the real engine
# endpoint synchronously; the event engine is only recorded
_orig_sync = env.Driver.sync_call
_orig_async = env.Driver.async_call


def _direct(self, ctx, method, kwargs):
    RPC_LOG.append((self.topic, method))
    if self.topic != env.CONF.engine.topic:
        return None
    saved = auth_context.ctx() if auth_context.has_ctx() else None
    try:
        return getattr(env.ENGINE_EP, method)(ctx, **kwargs)
    finally:
        auth_context.set_ctx(saved)


def _sync_call(self, ctx, method, target=None, **kwargs):
    if env.cur_act() is None:
        return _direct(self, ctx, method, kwargs)
    return _orig_sync(self, ctx, method, target=target, **kwargs)


def _async_call(self, ctx, method, target=None, fanout=False, **kwargs):
    if env.cur_act() is None:
        if self.topic == env.CONF.engine.topic:
            return _direct(self, ctx, method, kwargs)
        RPC_LOG.append((self.topic, method))
        return None
    return _orig_async(self, ctx, method, target=target, fanout=fanout,
                       **kwargs)


env.Driver.sync_call = _sync_call
env.Driver.async_call = _async_call


def app():
    if not _APP:
        conf = dict(pecan_app.get_pecan_config().app)
        raw = pecan.make_app(
            conf.pop('root'),
            hooks=lambda: [request_body.RejectXMLHook(),
                           auth_context.AuthHook(),
                           maintenance.MaintenanceHook(),
                           auth_context.ContextHook()],
            **conf)
        _APP.append(TestApp(raw))
    return _APP[0]


# Role lists as keystone middleware delivers them (comma separated).  Only
# the role `admin` itself makes an administrator: the other callers carry
# ordinary roles, some of which merely contain that word (Swift's
# ResellerAdmin, Octavia's load-balancer_admin, a custom project_admin).
ROLES = {'A': 'member', 'B': 'member,ResellerAdmin',
         'M': 'load-balancer_admin,reader,project_admin',
         'ADM': 'member,admin'}


def headers(who):
    c = W.CALLERS[who]
    roles = ROLES.get(who, 'admin' if c.admin else 'member')
    assert ('admin' in roles.split(',')) == bool(c.admin)
    return {'X-Identity-Status': 'Confirmed', 'X-Project-Id': c.project,
            'X-User-Id': 'u-' + c.project, 'X-Roles': roles,
            'Accept': '*/*'}


class ROp(object):
    def __init__(self, method, path, variant='', body=None, ctype=None,
                 mode=None, sel=None, route=None):
        self.method, self.path, self.body = method, path, body
        self.ctype, self.mode, self.sel = ctype, mode, sel
        self.route = route or path
        self.fn = '%s %s' % (method, self.route)
        self.id = self.fn + ('[%s]' % variant if variant else '')


LIST_Q = ['', 'name=' + NAME, 'all_projects=true', 'project_id=A',
          'fields=name', 'scope=private', 'limit=5&sort_keys=name']


def rest_ops(s):
    t = s.typ
    rid = s.ids['A']
    a = s.aux.get('A', {})
    ops = []

    def op(*args, **kw):
        ops.append(ROp(*args, **kw))

    def lists(base, sel_all=W._all, table=None):
        for q in LIST_Q:
            if q.startswith('name='):
                sel = (lambda s_, pre: W.rows(pre, s.table,
                                              lambda r: r['name'] == NAME))
            elif q == 'project_id=A':
                sel = None      # not every route supports the filter
            elif q == 'scope=private':
                sel = None
            else:
                sel = sel_all
            if q == 'all_projects=true':
                sel = None
            qs = q.replace('project_id=A', 'project_id=' + W.PID['A'])
            op('GET', base + ('?' + qs if qs else ''), q, mode='many',
               sel=sel, route=base)

    def items(base, by=('name', 'id'), get_by=None):
        for v in by:
            ident = NAME if v == 'name' else rid
            if v in (get_by or by):
                op('GET', '%s/%s' % (base, ident), v, mode='one',
                   sel=W._by_name if v == 'name' else W._by_id,
                   route=base + '/<%s>' % v)
            op('DELETE', '%s/%s' % (base, ident), v,
               route=base + '/<%s>' % v)

    if t == 'workbook':
        items('/v2/workbooks', by=('name',))
        lists('/v2/workbooks')
        op('PUT', '/v2/workbooks?skip_validation=1', 'yaml', route='/v2/workbooks',
           body=W.WB_YAML % (NAME, 'CHANGED', 'chg'), ctype='text/plain')
        op('POST', '/v2/workbooks?skip_validation=1', 'same-name', route='/v2/workbooks',
           body=W.WB_YAML % (NAME, 'NEW', 'new'), ctype='text/plain')
    elif t == 'workflow':
        items('/v2/workflows')
        lists('/v2/workflows')
        op('PUT', '/v2/workflows?skip_validation=1', 'yaml', route='/v2/workflows', body=W.WF_YAML % (NAME, 'CHANGED'),
           ctype='text/plain')
        op('PUT', '/v2/workflows/' + rid + '?skip_validation=1', 'yaml',
           body=W.WF_YAML % (NAME, 'CHANGED'), ctype='text/plain',
           route='/v2/workflows/<id>')
        op('POST', '/v2/workflows?skip_validation=1', 'same-name', route='/v2/workflows',
           body=W.WF_YAML % (NAME, 'NEW'), ctype='text/plain')
        op('POST', '/v2/executions', 'workflow_id=A',
           body={'workflow_id': rid}, route='/v2/executions')
        op('POST', '/v2/executions', 'workflow_name',
           body={'workflow_name': NAME}, route='/v2/executions')
        op('POST', '/v2/cron_triggers', 'workflow_id=A',
           body={'name': 'ct2', 'workflow_id': rid, 'pattern': '* * * * *'})
        op('POST', '/v2/event_triggers', 'workflow_id=A',
           body={'name': 'et2', 'workflow_id': rid, 'exchange': 'ex',
                 'topic': 'tp', 'event': 'ev'})
        mb = '/v2/workflows/%s/members' % rid
        mr = '/v2/workflows/<id>/members'
        op('GET', mb, route=mr)
        op('GET', mb + '/' + W.PID['M'], 'M', route=mr + '/<member>')
        op('POST', mb, 'self', body=lambda who: {
            'member_id': W.CALLERS[who].project}, route=mr)
        op('POST', mb, 'third', body={'member_id': W.PID['Z']}, route=mr)
        op('PUT', mb + '/' + W.PID['M'], 'M,accept', body={'status': 'accepted'},
           route=mr + '/<member>')
        op('DELETE', mb + '/' + W.PID['M'], 'M', route=mr + '/<member>')
    elif t == 'action':
        items('/v2/actions', get_by=('name',))
        lists('/v2/actions')
        op('PUT', '/v2/actions', 'yaml', body=W.ACT_YAML % (NAME, 'CHANGED'),
           ctype='text/plain')
        op('PUT', '/v2/actions/' + rid, 'yaml',
           body=W.ACT_YAML % (NAME, 'CHANGED'), ctype='text/plain',
           route='/v2/actions/<id>')
        op('POST', '/v2/actions', 'same-name',
           body=W.ACT_YAML % (NAME, 'NEW'), ctype='text/plain')
    elif t == 'code_source':
        items('/v2/code_sources')
        lists('/v2/code_sources')
        for v, ident in (('name', NAME), ('id', rid)):
            op('PUT', '/v2/code_sources/' + ident, v, body='# CHANGED\n',
               ctype='text/plain', route='/v2/code_sources/<%s>' % v)
        op('POST', '/v2/code_sources?name=' + NAME, 'same-name',
           body='# NEW\n', ctype='text/plain', route='/v2/code_sources')
    elif t == 'dynamic_action':
        items('/v2/dynamic_actions')
        lists('/v2/dynamic_actions')
        op('PUT', '/v2/dynamic_actions', 'name',
           body={'name': NAME, 'class_name': 'CHANGED'})
        op('PUT', '/v2/dynamic_actions', 'id',
           body={'id': rid, 'class_name': 'CHANGED'})
        op('PUT', '/v2/dynamic_actions', 'id,code_source=A',
           body={'id': rid, 'class_name': 'CHANGED',
                 'code_source_id': a['cs']})
        op('POST', '/v2/dynamic_actions', 'code_source=A',
           body={'name': 'da2', 'class_name': 'X',
                 'code_source_id': a['cs']})
        op('GET', '/v2/code_sources/' + a['cs'], 'cs-of-A',
           route='/v2/code_sources/<id>')
    elif t == 'environment':
        items('/v2/environments', by=('name',))
        lists('/v2/environments')
        op('PUT', '/v2/environments', 'json',
           body={'name': NAME, 'description': 'CHANGED',
                 'variables': '{"k": "CHANGED"}'})
        op('POST', '/v2/environments', 'same-name',
           body={'name': NAME, 'description': 'NEW',
                 'variables': '{"k": "NEW"}'})
    elif t == 'cron_trigger':
        items('/v2/cron_triggers')
        lists('/v2/cron_triggers')
        op('POST', '/v2/cron_triggers', 'workflow_id=A',
           body={'name': 'ct2', 'workflow_id': a['wf'],
                 'pattern': '* * * * *'})
        op('POST', '/v2/cron_triggers', 'same-name',
           body=lambda who: {'name': NAME, 'workflow_name': 'w-' + who,
                             'pattern': '3 * * * *'})
    elif t == 'event_trigger':
        items('/v2/event_triggers', by=('id',))
        lists('/v2/event_triggers')
        op('PUT', '/v2/event_triggers/' + rid, 'name',
           body={'name': 'CHANGED'}, route='/v2/event_triggers/<id>')
        op('PUT', '/v2/event_triggers/' + rid, 'project_id',
           body=lambda who: {'name': 'CHANGED',
                             'project_id': W.CALLERS[who].project},
           route='/v2/event_triggers/<id>')
        op('POST', '/v2/event_triggers', 'workflow_id=A',
           body={'name': 'et2', 'workflow_id': a['wf'], 'exchange': 'ex2',
                 'topic': 'tp', 'event': 'ev'})
    elif t == 'wf_ex':
        items('/v2/executions', by=('id',))
        lists('/v2/executions')
        op('DELETE', '/v2/executions/%s?force=true' % rid, 'id,force',
           route='/v2/executions/<id>')
        op('PUT', '/v2/executions/' + rid, 'description',
           body={'description': 'CHANGED'}, route='/v2/executions/<id>')
        op('PUT', '/v2/executions/' + rid, 'state=PAUSED',
           body={'state': 'PAUSED'}, route='/v2/executions/<id>')
        op('PUT', '/v2/executions/' + rid, 'env',
           body={'params': '{"env": {"k": "CHANGED"}}'},
           route='/v2/executions/<id>')
        for sub in ('tasks', 'report', 'executions'):
            op('GET', '/v2/executions/%s/%s' % (rid, sub),
               route='/v2/executions/<id>/' + sub)
        op('POST', '/v2/executions', 'source_execution_id=A',
           body={'source_execution_id': rid})
    elif t == 'task_ex':
        items('/v2/tasks', by=('id',))
        lists('/v2/tasks')
        op('GET', '/v2/tasks?workflow_execution_id=' + a['wf_ex'],
           'workflow_execution_id=A', mode='many',
           sel=W._f('workflow_execution_id', a['wf_ex']), route='/v2/tasks')
        op('GET', '/v2/executions/%s/tasks' % a['wf_ex'],
           route='/v2/executions/<id>/tasks')
        for sub in ('action_executions', 'workflow_executions',
                    'executions'):
            op('GET', '/v2/tasks/%s/%s' % (rid, sub),
               route='/v2/tasks/<id>/' + sub)
        op('PUT', '/v2/tasks/' + rid, 'rerun',
           body={'state': 'RUNNING', 'reset': True},
           route='/v2/tasks/<id>')
    elif t == 'action_ex':
        items('/v2/action_executions', by=('id',))
        lists('/v2/action_executions')
        op('GET', '/v2/action_executions?task_execution_id=' + a['task_ex'],
           'task_execution_id=A', mode='many',
           sel=W._f('task_execution_id', a['task_ex']),
           route='/v2/action_executions')
        op('GET', '/v2/tasks/%s/action_executions' % a['task_ex'],
           route='/v2/tasks/<id>/action_executions')
        op('GET', '/v2/tasks/%s/action_executions/%s' % (a['task_ex'], rid),
           route='/v2/tasks/<id>/action_executions/<id>')
        op('PUT', '/v2/action_executions/' + rid, 'complete',
           body={'state': 'ERROR', 'output': '{"result": "CHANGED"}'},
           route='/v2/action_executions/<id>')
    return ops


def _collect_ids(o, out):
    if isinstance(o, dict):
        if isinstance(o.get('id'), str):
            out.append(o['id'])
        for v in o.values():
            _collect_ids(v, out)
    elif isinstance(o, list):
        for v in o:
            _collect_ids(v, out)
    return out


def run_rest_op(s, op, who):
    s.restore()
    del RPC_LOG[:]
    caller = W.CALLERS[who]
    a = app()
    body = op.body(who) if callable(op.body) else op.body
    h = headers(who)
    kw = {'headers': h, 'expect_errors': True}
    obs = {'exc': None, 'ids': [], 'any': False}
    calls = set()
    W.TRACE['on'] = calls
    try:
        if op.method == 'GET':
            r = a.get(op.path, **kw)
        elif op.method == 'DELETE':
            r = a.delete(op.path, **kw)
        else:
            f = a.put if op.method == 'PUT' else a.post
            if isinstance(body, (dict, list)):
                h['Content-Type'] = 'application/json'
                r = f(op.path, params=json.dumps(body), **kw)
            else:
                h['Content-Type'] = op.ctype or 'text/plain'
                r = f(op.path, params=body, **kw)
        obs['status'] = r.status_int
        text = r.text or ''
    except Exception as e:  # noqa
        obs['status'] = 599
        obs['err'] = '%s: %s' % (type(e).__name__, str(e)[:300])
        text = ''
    finally:
        W.TRACE['on'] = None
        auth_context.set_ctx(None)
    obs['db_calls'] = sorted(calls)
    ok = 200 <= obs['status'] < 300
    if not ok:
        obs['exc'] = 'HTTP%d' % obs['status']
        if obs['status'] >= 500:
            obs['err'] = obs.get('err') or text[:300]
    ids = []
    if ok and text:
        try:
            _collect_ids(json.loads(text), ids)
        except ValueError:
            pass
    marks = [rid for m, rid in s.marks.items() if m in text] if ok else []
    obs['ids'] = ids
    obs['any'] = ok
    post = M.dump(env.raw_conn())
    pre = s.pre
    required = op.sel(s, pre) if op.sel else None
    # a route closed by policy (403), a rejected query (400/405/406) or a
    # server error says nothing about readability
    if required is not None and not ok and not (
            op.mode == 'one' and obs['status'] == 404):
        required = None
    br = M.judge(pre, post, caller, returned_ids=ids, leaked_marks=marks,
                 required=required, mode=op.mode, returned_anything=ok)
    obs['post_hash'] = M.state_hash(post)
    obs['changed'] = post != pre
    obs['req_ids'] = [i for _, i in (required or [])]
    obs['rpc'] = list(RPC_LOG)
    obs['expect_visible'] = bool(required) and any(
        M.must_see(pre, t, pre[t][i], caller) for t, i in required)
    obs['expect_hidden'] = bool(required) and not any(
        M.visible(pre, t, pre[t][i], caller) for t, i in required)
    return obs, br
