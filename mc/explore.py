"""Explicit-state exploration of the real implementation (DESIGN.md 2.3).

Depth-first search over the interleavings of atomic steps.  The live state
(greenlets suspended inside real Mistral frames + the in-memory SQLite image)
cannot be copied, so a branching point is checkpointed with os.fork(): every
alternative but the first is explored by a forked child that inherits the
complete state and reports the states it discovered through a pipe.  Pruning
is by a visited map {128-bit canonical state hash -> largest remaining
deviation budget it was expanded with}.

A deviation = choosing anything but the canonical default (continue the
activity that ran last, else oldest first, scheduler polls last).
"""
import collections
import os
import pickle
import signal
import time
import traceback

from mc import env


def _pdeathsig():
    try:
        import ctypes
        ctypes.CDLL('libc.so.6').prctl(1, signal.SIGKILL)
    except Exception:
        pass


class Scenario(object):
    """Interface between a property check and the explorer."""
    name = 'scenario'
    horizon_steps = 400
    horizon_clock = 3600
    hash_clock = False

    def setup(self):
        raise NotImplementedError

    def externals(self):
        """Extra enabled choices (operator commands, faults)."""
        return []

    def extra_state(self):
        return None

    def check_step(self, pre, post, choice, ctx):
        """Transition oracle: list of violation strings."""
        return []

    def check_terminal(self, snap, ctx):
        """-> (outcome_key or None, [violation strings])."""
        return None, []

    def describe(self):
        return {'name': self.name}


class Ctx(object):
    """Per-step context handed to oracles."""

    def __init__(self, path, new_exceptions, new_msgs, new_runs, quiescent):
        self.path = path
        self.new_exceptions = new_exceptions
        self.new_msgs = new_msgs
        self.new_runs = new_runs
        self.quiescent = quiescent


class Result(object):
    def __init__(self):
        self.new = {}
        self.stats = collections.Counter()
        self.terminals = {}      # outcome key -> [count, sample path]
        self.violations = []     # dicts
        self.samples = []        # (path, hashes) of complete executions
        self.known = {}          # known finding 'what' -> violation dict
        self.error = None

    def merge(self, o):
        self.new.update(o.new)
        for k, v in o.stats.items():
            if k.startswith('max_'):
                self.stats[k] = max(self.stats[k], v)
            else:
                self.stats[k] += v
        for k, (n, p) in o.terminals.items():
            if k in self.terminals:
                self.terminals[k][0] += n
            else:
                self.terminals[k] = [n, p]
        self.violations.extend(o.violations)
        for k, v in o.known.items():
            self.known.setdefault(k, v)
        for s in o.samples:
            if len(self.samples) < 6:
                self.samples.append(s)
        if o.error and not self.error:
            self.error = o.error


class Explorer(object):
    def __init__(self, scn, bound=2, deadline=None, max_states=None,
                 prune=True, max_violations=1, known=None):
        self.scn = scn
        self.bound = bound
        self.deadline = deadline
        self.max_states = max_states
        self.prune = prune
        self.max_violations = max_violations
        self.known = known       # callable(violation dict) -> what | None
        self.visited = {}
        self.res = Result()
        self.stop = False
        self._marks = (0, 0, 0)

    # -------------------------------------------------------------- helpers
    def _drain(self):
        w = env.W
        e0, m0, r0 = self._marks
        ne, nm, nr = w.exceptions[e0:], w.msg_log[m0:], w.run_log[r0:]
        self._marks = (len(w.exceptions), len(w.msg_log), len(w.run_log))
        return ne, nm, nr

    def _dump(self):
        d = getattr(self.scn, 'dump', None)
        return d() if d else env.dump_tables()

    def _hash(self, snap):
        return env.state_hash_of(snap, self.scn.extra_state(),
                                 keep_clock=self.scn.hash_clock)

    def _violation(self, path, msgs, kind):
        """Returns True if something other than a known finding failed."""
        new = False
        hist = getattr(self.scn, 'history', None)
        tags = hist() if hist else None
        for m in msgs:
            if tags:
                m = '%s [history: %s]' % (m, ', '.join(tags))
            d = {'scenario': self.scn.name, 'kind': kind, 'message': m,
                 'path': list(path)}
            k = self.known(d) if self.known else None
            if k is not None:
                self.res.known.setdefault(k['what'], d)
                self.res.stats['known_finding_hits'] += 1
                if not k.get('continue'):
                    # the run is past a recorded defect: its continuation is
                    # not explored (nothing after it is judged)
                    self._prune_here = True
                continue
            self.res.violations.append(d)
            new = True
        if new and len(self.res.violations) >= self.max_violations:
            self.stop = True
        return new

    def _capped(self, why):
        self.res.stats['cap_' + why] += 1

    # -------------------------------------------------------------- search
    def run(self):
        t0 = time.time()
        self.scn.setup()
        self._drain()
        snap = self._dump()
        h = self._hash(snap)
        b0 = 10 ** 6 if self.bound is None else self.bound
        self.visited[h] = b0
        self.res.new[h] = b0
        self.res.stats['states'] += 1
        self._explore([], [h], b0, snap)
        self.res.stats['wall_ms'] += int((time.time() - t0) * 1000)
        return self.res

    def _choices(self):
        ch = env.enabled_choices()
        ch.extend(self.scn.externals())
        return ch

    def _explore(self, path, hpath, budget, snap):
        while not self.stop:
            if self.deadline and time.time() > self.deadline:
                self._capped('deadline')
                self.stop = True
                return
            if self.max_states and len(self.visited) > self.max_states:
                self._capped('max_states')
                self.stop = True
                return
            real = env.enabled_choices()
            exts = self.scn.externals()
            if not real:
                t = env.next_clock_event()
                if t is not None and t <= self.scn.horizon_clock:
                    # time passes (default) or an operator command / fault
                    # lands first
                    choices = [env.Choice('T%d' % t, 'clock', t, 0,
                                          'clock -> t=%d' % t, cost=0)]
                    choices.extend(exts)
                else:
                    if t is not None and not getattr(
                            self.scn, 'horizon_is_terminal', False):
                        self._capped('horizon_clock')
                        return
                    # quiescent: a terminal state of the run in which no
                    # further command is issued
                    self._terminal(path, hpath, snap)
                    if not exts or self.stop:
                        return
                    choices = exts
            else:
                choices = real + exts
            if len(path) >= self.scn.horizon_steps:
                self._capped('horizon_steps')
                self._violation(path, ['run does not quiesce within %d steps'
                                       % self.scn.horizon_steps], 'horizon')
                return
            n = len(choices)
            if n > 1:
                self.res.stats['branching_points'] += 1
            self.res.stats['max_enabled'] = max(
                self.res.stats['max_enabled'], n)
            alts = []
            for i, c in enumerate(choices):
                cost = 0 if (i == 0 or self.bound is None) \
                    else getattr(c, 'cost', 1)
                if cost > budget:
                    self.res.stats['cut_by_budget'] += 1
                    continue
                alts.append((c, cost))
            # default choice first (largest remaining budget first keeps
            # budget-aware pruning from re-expanding states); the last
            # alternative continues in this process without a checkpoint
            for c, cost in alts[:-1]:
                self._fork_child(path, hpath, budget - cost, c, snap)
                if self.stop:
                    return
            c, cost = alts[-1]
            budget -= cost
            ok, snap = self._do_step(path, hpath, c, snap, budget)
            if not ok:
                return

    def _do_step(self, path, hpath, c, snap, budget_left):
        pre = snap
        if c.kind == 'ext':
            c.obj()
            env.eager_closure()
        elif c.kind == 'clock':
            env.set_clock(c.obj)
        else:
            env.step(c)
        post = self._dump()
        path.append(c.label)
        self.res.stats['transitions'] += 1
        ne, nm, nr = self._drain()
        ctx = Ctx(path, ne, nm, nr, False)
        viol = self.scn.check_step(pre, post, c, ctx)
        self._prune_here = False
        if viol and self._violation(path, viol, 'step'):
            hpath.append(None)
            return False, post
        if self._prune_here:
            hpath.append(None)
            self.res.stats['pruned_after_known_finding'] += 1
            return False, post
        h = self._hash(post)
        hpath.append(h)
        if self.prune:
            seen = self.visited.get(h)
            if seen is not None and seen >= budget_left:
                self.res.stats['pruned'] += 1
                return False, post
            if seen is None:
                self.res.stats['states'] += 1
            self.visited[h] = budget_left
            self.res.new[h] = budget_left
        else:
            if h not in self.visited:
                self.res.stats['states'] += 1
                self.visited[h] = budget_left
                self.res.new[h] = budget_left
        return True, post

    def _terminal(self, path, hpath, snap):
        self.res.stats['executions'] += 1
        ctx = Ctx(path, [], [], [], True)
        key, viol = self.scn.check_terminal(snap, ctx)
        if key is not None:
            if key in self.res.terminals:
                self.res.terminals[key][0] += 1
            else:
                self.res.terminals[key] = [1, list(path)]
        if len(self.res.samples) < 3:
            self.res.samples.append((list(path), list(hpath)))
        if viol:
            self._violation(path, viol, 'terminal')

    def _fork_child(self, path, hpath, budget, c, snap):
        r, w = os.pipe()
        pid = os.fork()
        if pid == 0:
            _pdeathsig()
            os.close(r)
            try:
                self.res = Result()
                p, hp = list(path), list(hpath)
                ok, snap2 = self._do_step(p, hp, c, snap, budget)
                if ok and not self.stop:
                    self._explore(p, hp, budget, snap2)
                if self.stop and not self.res.violations:
                    self.res.stats['stopped'] = 1
                payload = pickle.dumps(self.res)
            except BaseException:
                rr = Result()
                rr.error = traceback.format_exc()
                payload = pickle.dumps(rr)
            try:
                with os.fdopen(w, 'wb') as f:
                    f.write(payload)
            finally:
                os._exit(0)
        os.close(w)
        chunks = []
        with os.fdopen(r, 'rb') as f:
            while True:
                b = f.read(1 << 20)
                if not b:
                    break
                chunks.append(b)
        os.waitpid(pid, 0)
        data = b''.join(chunks)
        if not data:
            self.res.error = 'child died without result at %s' % (path,)
            self.stop = True
            return
        o = pickle.loads(data)
        self.visited.update(o.new)
        stopped = o.stats.pop('stopped', 0)
        self.res.merge(o)
        if o.error:
            self.stop = True
        if stopped or any(k.startswith('cap_deadline') or
                          k.startswith('cap_max_states') for k in o.stats):
            self.stop = True
        if len(self.res.violations) >= self.max_violations:
            self.stop = True


# ------------------------------------------------------------------ replay
def replay(scn, labels, check=True, stop_on_violation=True):
    """Plain replayer: follows the recorded choices on a fresh environment.
    Returns dict(hashes, violations, outcome, diverged)."""
    scn.setup()
    marks = [0, 0, 0]

    def drain():
        w = env.W
        ne = w.exceptions[marks[0]:]
        nm = w.msg_log[marks[1]:]
        nr = w.run_log[marks[2]:]
        marks[:] = [len(w.exceptions), len(w.msg_log), len(w.run_log)]
        return ne, nm, nr

    drain()
    _dump = getattr(scn, 'dump', None) or env.dump_tables
    snap = _dump()
    hashes = [env.state_hash_of(snap, scn.extra_state(),
                                keep_clock=scn.hash_clock)]
    out = {'hashes': hashes, 'violations': [], 'outcome': None,
           'diverged': None, 'steps': []}
    path = []
    for lab in labels:
        if lab.startswith('T') and lab[1:].isdigit() and not any(
                x.label == lab for x in scn.externals()):
            pre = snap
            env.set_clock(int(lab[1:]))
            snap = _dump()
            path.append(lab)
            out['steps'].append('%s clock' % lab)
            hashes.append(env.state_hash_of(snap, scn.extra_state(),
                                            keep_clock=scn.hash_clock))
            continue
        ch = env.enabled_choices()
        ch.extend(scn.externals())
        c = next((x for x in ch if x.label == lab), None)
        if c is None:
            out['diverged'] = 'label %s not enabled at step %d (enabled: %s)' \
                % (lab, len(path), [x.label for x in ch])
            return out
        pre = snap
        if c.kind == 'ext':
            c.obj()
            env.eager_closure()
        else:
            env.step(c)
        snap = _dump()
        path.append(lab)
        out['steps'].append('%s %s' % (lab, c.info[:160]))
        ne, nm, nr = drain()
        if check:
            v = scn.check_step(pre, snap, c, Ctx(path, ne, nm, nr, False))
            hist = getattr(scn, 'history', None)
            tags = hist() if hist else None
            if tags:
                v = ['%s [history: %s]' % (m, ', '.join(tags)) for m in v]
            if v:
                out['violations'].extend(v)
                if stop_on_violation:
                    hashes.append(None)
                    return out
        hashes.append(env.state_hash_of(snap, scn.extra_state(),
                                        keep_clock=scn.hash_clock))
    # same rule as Explorer._explore: a quiescent state is a terminal state
    # of the run in which no further command / fault comes, also when
    # externals are still on offer
    t = env.next_clock_event()
    quiet = not env.enabled_choices() and (
        t is None or (t > scn.horizon_clock and
                      getattr(scn, 'horizon_is_terminal', False)))
    if quiet and check:
        key, v = scn.check_terminal(snap, Ctx(path, [], [], [], True))
        out['outcome'] = key
        out['violations'].extend(v)
    return out
