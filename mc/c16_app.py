"""C16 harness: the real pecan/WSGI application of the tree under test, the
real oslo.policy enforcer, an inline (synchronous) RPC transport in front of
the real engine endpoint, SQL statement log, fixtures, logical DB dumps.

Nothing of Mistral is mocked except Keystone trust creation (network).
"""
import hashlib
import json

from mc import env  # noqa: F401  (must be first: import order, seams)

import greenlet
import oslo_messaging as messaging
import pecan
import pecan.testing
import sqlalchemy as sa
from oslo_policy import policy as oslo_policy

from mistral import context as auth_context
from mistral import exceptions as mexc
from mistral import policies
from mistral.api import access_control as acl
from mistral.api import app as pecan_app
from mistral.db.sqlalchemy import base as db_base
from mistral.lang import parser as spec_parser
from mistral.rpc import base as rpc_base
from mistral.rpc import clients as rpc_clients
from mistral.services import security

CONF = env.CONF
SER = env.SER


class HarnessError(Exception):
    pass


# ------------------------------------------------------------------ transport
class InlineDriver(rpc_base.RPCClient):
    """Records every message; synchronous calls are executed at once on the
    real engine / executor endpoint (serialised context and arguments, like
    a remote call), asynchronous ones stay pending in env.W.msgs."""

    def __init__(self, conf):
        super(InlineDriver, self).__init__(conf)
        self.topic = conf.topic

    def async_call(self, ctx, method, target=None, fanout=False, **kwargs):
        env.W.msgs.append(env.Msg(self.topic, ctx, method, kwargs))

    def sync_call(self, ctx, method, target=None, **kwargs):
        if env.cur_act() is not None:
            raise HarnessError('inline sync_call inside an activity')
        m = env.Msg(self.topic, ctx, method, kwargs)
        SYNC_LOG.append(m)
        saved = auth_context.ctx() if auth_context.has_ctx() else None
        ep = (env.ENGINE_EP if self.topic == CONF.engine.topic
              else env.executor_ep())
        try:
            rctx = SER.deserialize_context(dict(m.ctx))
            kw = {k: SER.deserialize_entity(None, v)
                  for k, v in m.kwargs.items()}
            try:
                r = getattr(ep, method)(rctx, **kw)
            except mexc.MistralException:
                raise
            except Exception as e:
                # what the API side sees from a real remote endpoint
                raise messaging.RemoteError(type(e).__name__, str(e))
            return SER.deserialize_entity(None, SER.serialize_entity(None, r))
        finally:
            auth_context.set_ctx(saved)


SYNC_LOG = []

rpc_base._IMPL_CLIENT = InlineDriver
rpc_clients.cleanup()
rpc_base._IMPL_CLIENT = InlineDriver


# ------------------------------------------------------------------ keystone
class _Trust(object):
    id = 'trust-c16'


security.create_trust = lambda: _Trust()
security.delete_trust = lambda trust_id=None: None


# ------------------------------------------------------------------ sql log
SQL_LOG = []


def _on_sql(conn, cursor, statement, parameters, context, executemany):
    SQL_LOG.append(statement)


sa.event.listen(db_base.get_engine(), 'before_cursor_execute', _on_sql)

# statements of the maintenance hook (runs before every non-GET controller)
_HOOK_TABLES = ('mistral_metrics',)


def resource_sql(stmts):
    """Statements that touch anything but the maintenance flag."""
    out = []
    for s in stmts:
        low = s.lower()
        if any(t in low for t in _HOOK_TABLES):
            continue
        if low.split(None, 1)[0] in ('begin', 'commit', 'rollback',
                                     'savepoint', 'release', 'pragma'):
            continue
        out.append(s)
    return out


# ------------------------------------------------------------------ the app
CONF.set_override('enabled', False, group='cron_trigger')
CONF.set_override('allow_action_execution_deletion', True, group='api')
APP = pecan.testing.load_test_app(dict(pecan_app.get_pecan_config()))
# Built without the keystone middleware; authentication is then switched on
# so that AuthHook, project scoping and the members API behave as in a
# deployment: the request carries the headers keystonemiddleware would set.
CONF.set_override('auth_enable', True, group='pecan')


# ------------------------------------------------------------------ policy
def _new_enforcer():
    e = oslo_policy.Enforcer(CONF)
    e.register_defaults(policies.list_rules())
    e.load_rules()
    return e


acl._ENFORCER = _new_enforcer()
_ORIG_RULES = dict(acl._ENFORCER.rules)
ALL_RULE_NAMES = sorted(_ORIG_RULES)


def registered_defaults():
    """rule name -> documented default check string (the registry)."""
    return {r.name: r.check_str for r in policies.list_rules()}


def documented_operations():
    """rule name -> [(METHOD, path)] from the DocumentedRuleDefaults."""
    out = {}
    for r in policies.list_rules():
        ops = getattr(r, 'operations', None) or []
        out[r.name] = sorted((o['method'], o['path']) for o in ops)
    return out


def set_policy(denied):
    """denied: iterable of rule names forced to '!' ('*' = every rule)."""
    enf = acl._ENFORCER
    enf.rules.clear()
    enf.rules.update(_ORIG_RULES)
    denied = list(denied or ())
    if '*' in denied:
        denied = list(_ORIG_RULES)
    for name in denied:
        enf.rules[name] = oslo_policy.RuleDefault(name, '!').check


# ------------------------------------------------------------------ db
def _tables():
    c = env.raw_conn().cursor()
    c.execute("select name from sqlite_master where type='table' "
              "and name not like 'sqlite_%' order by name")
    return [r[0] for r in c.fetchall()]


TABLES = _tables()
_VOLATILE = ('created_at', 'updated_at')


def dump_db():
    """Logical image of every table (all columns, rowid order)."""
    c = env.raw_conn().cursor()
    out = {}
    for t in TABLES:
        c.execute('select * from %s' % t)
        cols = [d[0] for d in c.description]
        k = cols.index('id') if 'id' in cols else 0
        rows = sorted(c.fetchall(), key=lambda r: str(r[k]))
        if rows:
            out[t] = (cols, rows)
    return out


def diff_db(a, b):
    """Human-readable list of differences between two dumps."""
    out = []
    for t in sorted(set(a) | set(b)):
        ca, ra = a.get(t, ([], []))
        cb, rb = b.get(t, ([], []))
        if ra == rb:
            continue
        cols = ca or cb
        i = cols.index('id') if 'id' in cols else 0
        ka = {r[i]: r for r in ra}
        kb = {r[i]: r for r in rb}
        for k in sorted(set(ka) | set(kb), key=str):
            if k not in kb:
                out.append('%s: row %s deleted' % (t, k))
            elif k not in ka:
                out.append('%s: row %s inserted' % (t, k))
            elif ka[k] != kb[k]:
                ch = [cols[i] for i in range(len(cols))
                      if ka[k][i] != kb[k][i]]
                out.append('%s: row %s changed %s' % (t, k, ch))
    return out


def state_hash(dump, msgs=()):
    h = hashlib.blake2b(digest_size=16)
    for t in sorted(dump):
        cols, rows = dump[t]
        keep = [i for i, c in enumerate(cols) if c not in _VOLATILE]
        h.update(t.encode())
        for r in rows:
            h.update(repr([r[i] for i in keep]).encode())
    h.update(repr(sorted(msgs)).encode())
    return h.hexdigest()


def row_state(table, id_):
    c = env.raw_conn().cursor()
    c.execute('select state from %s where id=?' % table, (id_,))
    r = c.fetchone()
    return r[0] if r else None


# ------------------------------------------------------------------ reset
ID_BASE = 500000


def _kill_activities():
    for a in list(env.W.acts):
        if not a.done:
            try:
                a.g.throw(greenlet.GreenletExit)
            except BaseException:
                pass


def restore(snapshot, id_base=ID_BASE, clock=0):
    _kill_activities()
    env.W.__init__()
    env.GL.reset()
    del SYNC_LOG[:]
    del SQL_LOG[:]
    env.raw_conn().deserialize(snapshot)
    env.Ids.n = id_base
    env.Ids.perm = None
    spec_parser.clear_caches()
    auth_context.set_ctx(None)
    env.set_clock(clock)
    env.use_legacy_scheduler(1)
    set_policy(())


def drain(limit=600):
    """Run every pending message / activity / due scheduler poll to
    quiescence, advancing the clock over scheduler delays (fixtures)."""
    n = 0
    while True:
        ch = env.enabled_choices()
        if not ch:
            t = env.next_clock_event()
            if t is None or t > 3600:
                return
            env.set_clock(t)
            continue
        env.step(ch[0])
        n += 1
        if n > limit:
            raise HarnessError('fixture does not quiesce')


# ------------------------------------------------------------------ requests
def headers(project='P1', admin=False, user='u1'):
    return {
        'X-Project-Id': project,
        'X-User-Id': user,
        # (a role that merely contains the word is not the admin role)
        'X-Roles': 'admin' if admin else 'member,ResellerAdmin',
        'X-Identity-Status': 'Confirmed',
    }


def send(method, url, body=None, ctype=None, project='P1', admin=False):
    """One REST request through the WSGI app.  Returns a plain dict."""
    h = headers(project, admin)
    del SQL_LOG[:]
    n_msgs = len(env.W.msg_log)
    kw = {'headers': h, 'expect_errors': True,
          'extra_environ': {'openstack.request_id': 'req-c16'}}
    if method in ('POST', 'PUT'):
        if ctype == 'text':
            h['Content-Type'] = 'text/plain'
            payload = (body or '').encode()
        else:
            h['Content-Type'] = 'application/json'
            payload = json.dumps(body if body is not None else {}).encode()
        fn = APP.post if method == 'POST' else APP.put
        r = fn(url, payload, **kw)
    elif method == 'DELETE':
        r = APP.delete(url, **kw)
    else:
        r = APP.get(url, **kw)
    auth_context.set_ctx(None)
    try:
        js = r.json
    except Exception:
        js = None
    msgs = [(m[1], m[2], m[3]) for m in env.W.msg_log[n_msgs:]]
    return {'status': r.status_int, 'json': js,
            'text': r.text[:300] if js is None else
            str((js or {}).get('faultstring', ''))[:300]
            if isinstance(js, dict) else '',
            'sql': list(SQL_LOG), 'msgs': msgs,
            'pending': [(m.topic, m.method, m.short()) for m in env.W.msgs]}


# ------------------------------------------------------------------ fixtures
ABSENT_ID = '00000000-0000-4000-8000-00000000dead'

WB = """---
version: '2.0'
name: %s
workflows:
  w:
    tasks:
      t:
        action: std.noop
"""

WF = """---
version: '2.0'
%s:
  tasks:
    t1:
      action: %s
"""

WF_ITEMS = """---
version: '2.0'
%s:
  tasks:
    t1:
      with-items: i in [1, 2]
      action: verif.act key="wi<%% $.i %%>"
"""

ACT = """---
version: '2.0'
%s:
  base: std.echo
  base-input:
    output: hi
"""

CODE = """
from mistral_lib import actions

class A1(actions.Action):
    def run(self, context):
        return 1

    def test(self, context):
        return None
"""


def _ok(r, what):
    if r['status'] >= 300:
        raise HarnessError('fixture step failed: %s -> %s %s'
                           % (what, r['status'], r['text']))
    return r['json']


XP = '99999999-9999-4999-8999-999999999999'
XP_LISTS = {'/v2/workflows': 'xp_wf', '/v2/workbooks': 'xp_wb',
            '/v2/actions': 'xp_act', '/v2/environments': 'xp_env',
            '/v2/cron_triggers': 'xp_ct'}


def build_fixtures():
    """One populated database (project P1, private scope) built through the
    API itself as an admin of P1 plus the real engine/executor; returns
    (snapshot bytes, dict of ids)."""
    restore(env.SNAP0, id_base=1000)
    env.W.results = {'bad': ['E'], 'wi1': ['E'], 'wi2': ['S']}
    fx = {}

    def adm(method, url, body=None, ctype=None):
        return _ok(send(method, url, body, ctype, admin=True),
                   '%s %s' % (method, url))

    adm('POST', '/v2/workbooks', WB % 'wb1', 'text')
    adm('POST', '/v2/workbooks', WB % 'wb_free', 'text')
    j = adm('POST', '/v2/workflows',
            WF % ('wf1', 'verif.async_act key="a"'), 'text')
    fx['wf1'] = j['workflows'][0]['id']
    adm('POST', '/v2/workflows', WF % ('wf_free', 'std.noop'), 'text')
    adm('POST', '/v2/workflows', WF % ('wf_bad', 'verif.act key="bad"'),
        'text')
    adm('POST', '/v2/workflows', WF % ('wf_ok', 'std.noop'), 'text')
    adm('POST', '/v2/workflows', WF_ITEMS % 'wf_items', 'text')
    adm('POST', '/v2/actions', ACT % 'act1', 'text')
    adm('POST', '/v2/actions', ACT % 'act_free', 'text')
    j = adm('POST', '/v2/code_sources?name=cs1', CODE, 'text')
    fx['cs1'] = j['id']
    adm('POST', '/v2/code_sources?name=cs_free', CODE, 'text')
    adm('POST', '/v2/dynamic_actions',
        {'name': 'da1', 'class_name': 'A1', 'code_source_id': fx['cs1']})
    adm('POST', '/v2/dynamic_actions',
        {'name': 'da_free', 'class_name': 'A1', 'code_source_id': fx['cs1']})
    adm('POST', '/v2/environments',
        {'name': 'env1', 'variables': json.dumps({'k': 'v'})})
    adm('POST', '/v2/environments',
        {'name': 'env_free', 'variables': json.dumps({'k': 'v'})})
    adm('POST', '/v2/cron_triggers',
        {'name': 'ct1', 'workflow_name': 'wf1', 'pattern': '* * * * *'})
    j = adm('POST', '/v2/event_triggers',
            {'name': 'et1', 'workflow_id': fx['wf1'], 'exchange': 'x',
             'topic': 't', 'event': 'e.v'})
    fx['et1'] = j['id']
    adm('POST', '/v2/workflows/%s/members' % fx['wf1'], {'member_id': 'P2'})
    # private resources of another project (uuid-like id: the project_id
    # list filter only accepts such ids) for the cross-project list probes
    def other(method, url, body=None, ctype=None):
        return _ok(send(method, url, body, ctype, project=XP, admin=False),
                   '%s %s as %s' % (method, url, XP))
    other('POST', '/v2/workflows', WF % ('xp_wf', 'std.noop'), 'text')
    other('POST', '/v2/workbooks', WB % 'xp_wb', 'text')
    other('POST', '/v2/actions', ACT % 'xp_act', 'text')
    other('POST', '/v2/environments',
          {'name': 'xp_env', 'variables': json.dumps({'k': 'v'})})
    other('POST', '/v2/cron_triggers',
          {'name': 'xp_ct', 'workflow_name': 'xp_wf',
           'pattern': '* * * * *'})
    env.W.msgs[:] = []      # event engine notifications of the fixtures

    def run_wf(name):
        j = adm('POST', '/v2/executions', {'workflow_name': name})
        drain()
        return j['id']

    def one(sql, *a):
        c = env.raw_conn().cursor()
        c.execute(sql, a)
        r = c.fetchone()
        if not r:
            raise HarnessError('fixture lookup failed: ' + sql)
        return r[0]

    t_of = 'select id from task_executions_v2 where workflow_execution_id=?'
    a_of = 'select id from action_executions_v2 where task_execution_id=?'

    fx['ex_run'] = run_wf('wf1')            # RUNNING, async action pending
    fx['t_run'] = one(t_of, fx['ex_run'])
    fx['a_run'] = one(a_of, fx['t_run'])
    fx['ex_ok'] = run_wf('wf_ok')           # SUCCESS
    fx['ex_err'] = run_wf('wf_bad')         # ERROR, task in ERROR
    fx['t_err'] = one(t_of, fx['ex_err'])
    fx['ex_items'] = run_wf('wf_items')     # ERROR, with-items task in ERROR
    fx['t_items'] = one(t_of, fx['ex_items'])
    j = adm('POST', '/v2/action_executions',
            {'name': 'std.noop', 'params': json.dumps({'save_result': True})})
    drain()
    fx['a_adhoc_done'] = j['id']
    j = adm('POST', '/v2/action_executions',
            {'name': 'verif.async_act', 'input': json.dumps({'key': 'ah'}),
             'params': json.dumps({'save_result': True})})
    drain()
    fx['a_adhoc_run'] = j['id']

    expect = [('workflow_executions_v2', fx['ex_run'], 'RUNNING'),
              ('task_executions_v2', fx['t_run'], 'RUNNING'),
              ('action_executions_v2', fx['a_run'], 'RUNNING'),
              ('workflow_executions_v2', fx['ex_ok'], 'SUCCESS'),
              ('workflow_executions_v2', fx['ex_err'], 'ERROR'),
              ('task_executions_v2', fx['t_err'], 'ERROR'),
              ('workflow_executions_v2', fx['ex_items'], 'ERROR'),
              ('task_executions_v2', fx['t_items'], 'ERROR'),
              ('action_executions_v2', fx['a_adhoc_done'], 'SUCCESS'),
              ('action_executions_v2', fx['a_adhoc_run'], 'RUNNING')]
    for t, i, s in expect:
        if row_state(t, i) != s:
            raise HarnessError('fixture %s %s is %s, wanted %s'
                               % (t, i, row_state(t, i), s))
    if env.W.msgs or [a for a in env.W.acts if not a.done]:
        raise HarnessError('fixture not quiescent')
    fx['_ids'] = env.Ids.n
    fx['_clock'] = env.W.clock
    return env.raw_conn().serialize(), fx


def apply_sql(stmts):
    c = env.raw_conn().cursor()
    for s, args in stmts or ():
        c.execute(s, tuple(args))
    env.raw_conn().commit()
