"""Scenarios with operator commands / faults issued at every point of a run
(DESIGN 2.3: separate budget, tried at every point)."""
import json

from mc import env
from mc import wfscn

FINAL = wfscn.FINAL


def q(sql, args=()):
    c = env.raw_conn().cursor()
    c.execute(sql, args)
    return c.fetchall()


class CmdScenario(wfscn.ProgScenario):
    """menu entries (strings):
       pause, resume, stop:SUCCESS|ERROR|CANCELLED, pause_sub, resume_sub,
       stop_sub:<state>, rerun, rerun_noreset, skip, dup:<method>,
       async_ok, async_err, async_pause, async_resume
    order: optional list of allowed command sequences prefixes, e.g.
       [['pause','resume']] (default: any sequence up to max_cmds)."""

    def __init__(self, name, prog, menu=(), max_cmds=1, sequences=None,
                 only_tasks=None, cmd_db_fault=False, **kw):
        super(CmdScenario, self).__init__(name, prog, **kw)
        # the first commit of every operator command fails as a deadlock
        # victim and the command's transaction is retried by the engine
        self.cmd_db_fault = cmd_db_fault
        self.menu = list(menu)
        self.max_cmds = max_cmds
        self.sequences = sequences
        self.only_tasks = only_tasks

    def spec(self):
        return ('mc.cmdscn', type(self).__name__, self.kwargs())

    def kwargs(self):
        d = super(CmdScenario, self).kwargs()
        d.update(menu=self.menu, max_cmds=self.max_cmds,
                 sequences=self.sequences, only_tasks=self.only_tasks,
                 cmd_db_fault=self.cmd_db_fault)
        return d

    def describe(self):
        d = super(CmdScenario, self).describe()
        d.update(menu=self.menu, max_cmds=self.max_cmds,
                 sequences=self.sequences,
                 first_commit_of_every_command_deadlocks=self.cmd_db_fault)
        return d

    def setup(self):
        super(CmdScenario, self).setup()
        env.W.extra['cmds'] = []
        env.W.extra['cmd_db_fault'] = self.cmd_db_fault

    def extra_state(self):
        return [env.W.extra.get('cmds'), sorted(env.W.extra.get('hist', []))]

    def history(self):
        """Facts about the run so far that identify known defects."""
        return sorted(env.W.extra.get('hist', []))

    def _note_history(self, kind):
        h = env.W.extra.setdefault('hist', [])
        if kind.startswith(('stop', 'pause')):
            # overlap mode: the command commits while another engine
            # transaction has read the execution but not yet written
            open_tx = any(not a.done and a.obs and a.obs[-1][:1] == ['rp']
                          for a in env.W.acts)
            tag = '%s-committed-inside-an-engine-transaction-that-had-' \
                  'only-read' % kind.split(':')[0].split('_')[0]
            if open_tx and tag not in h:
                h.append(tag)
        if kind in ('stop:CANCELLED', 'stop_sub:CANCELLED'):
            n = q("select count(*) from task_executions_v2 "
                  "where state='IDLE' and type='WORKFLOW'")[0][0]
            tag = 'cancel-while-a-created-subworkflow-task-was-not-started-yet'
            if n and tag not in h:
                h.append(tag)
        if kind in ('rerun', 'rerun_noreset', 'skip'):
            pend = any(
                a.kind == 'chain' and a.chain_ops is not None and any(
                    '_check' in op for op in a.chain_ops[a.chain_pos:])
                for a in env.W.acts if not a.done)
            tag = 'rerun-before-the-pending-completion-check-of-the-failure'
            if pend and tag not in h:
                h.append(tag)
            # ... or before a pending re-evaluation of a join fed by the
            # failed task (the task is still ERROR until its start request
            # is handled: the stale refresh fails the join and the workflow)
            n = q("select count(*) from delayed_calls_v2 where "
                  "target_method_name like '%_refresh_task_state%'")[0][0]
            n += q("select count(*) from scheduled_jobs_v2 where "
                   "func_name like '%_refresh_task_state%'")[0][0]
            tag = 'rerun-before-the-pending-join-refresh-of-the-failure'
            if n and tag not in h:
                h.append(tag)
        if kind in ('resume', 'resume_sub'):
            idle = [r[0] for r in q("select id from task_executions_v2 "
                                    "where state='IDLE'")]
            n = sum(1 for m in env.W.msgs if m.method == 'start_task'
                    and any(i in m.kwargs.get('task_ex_id', '')
                            for i in idle))
            # ... or being handled by a transaction that has not written
            # yet (overlapping transactions)
            n += sum(1 for a in env.W.acts
                     if not a.done and a.kind == 'msg'
                     and '.start_task' in a.desc
                     and any(i in a.desc for i in idle))
            if n and 'resume-while-a-created-task-was-not-started-yet' \
                    not in h:
                h.append('resume-while-a-created-task-was-not-started-yet')

    # ------------------------------------------------------------ commands
    def _allowed(self, kind):
        done = [c[0] for c in env.W.extra['cmds']]
        if len(done) >= self.max_cmds:
            return False
        if self.sequences is None:
            return kind in self.menu
        for seq in self.sequences:
            if len(done) < len(seq) and seq[:len(done)] == done \
                    and seq[len(done)] == kind:
                return True
        return False

    def _mk(self, kind, target_label, thunk, info, is_rerun=False):
        def do():
            env.W.extra['cmds'].append([kind, target_label])
            self._note_history(kind)
            thunk()
        n = len(env.W.extra['cmds'])
        return env.Choice('X%d:%s:%s' % (n, kind, target_label), 'ext', do,
                          10 ** 9 + 5, info, cost=0, is_rerun=is_rerun,
                          tag=kind)

    def _engine_cmd(self, method, **kw):
        def thunk():
            m = env.post(method, **kw)
            env.deliver_now(m)
        return thunk

    def externals(self):
        if len(env.W.extra['cmds']) >= self.max_cmds:
            return []
        out = []
        wfs = q("select id, state, task_execution_id, name from "
                "workflow_executions_v2 order by id")
        roots = [w for w in wfs if not w[2]]
        subs = [w for w in wfs if w[2]]
        if roots:
            rid, rstate = roots[0][0], roots[0][1]
            if self._allowed('pause') and rstate == 'RUNNING':
                out.append(self._mk('pause', 'root', self._engine_cmd(
                    'pause_workflow', wf_ex_id=rid), 'pause root'))
            if self._allowed('resume') and rstate == 'PAUSED':
                out.append(self._mk('resume', 'root', self._engine_cmd(
                    'resume_workflow', wf_ex_id=rid, env=None),
                    'resume root'))
            if self._allowed('resume_any') and rstate in FINAL:
                out.append(self._mk('resume_any', 'root', self._engine_cmd(
                    'resume_workflow', wf_ex_id=rid, env=None),
                    'resume a finished root'))
            if self._allowed('pause_any') and rstate in FINAL:
                out.append(self._mk('pause_any', 'root', self._engine_cmd(
                    'pause_workflow', wf_ex_id=rid),
                    'pause a finished root'))
            for st in ('SUCCESS', 'ERROR', 'CANCELLED'):
                k = 'stop_any:' + st
                if self._allowed(k) and rstate in FINAL:
                    out.append(self._mk(k, 'root', self._engine_cmd(
                        'stop_workflow', wf_ex_id=rid, state=st,
                        message='stopped-again'), 'stop a finished root'))
            for st in ('SUCCESS', 'ERROR', 'CANCELLED'):
                k = 'stop:' + st
                if self._allowed(k) and rstate not in FINAL:
                    out.append(self._mk(k, 'root', self._engine_cmd(
                        'stop_workflow', wf_ex_id=rid, state=st,
                        message='stopped-by-operator'), 'stop root ' + st))
        for i, w in enumerate(subs):
            sid, sstate = w[0], w[1]
            lab = 'sub%d' % i
            if self._allowed('pause_sub') and sstate == 'RUNNING':
                out.append(self._mk('pause_sub', lab, self._engine_cmd(
                    'pause_workflow', wf_ex_id=sid), 'pause ' + w[3]))
            if self._allowed('resume_sub') and sstate == 'PAUSED':
                out.append(self._mk('resume_sub', lab, self._engine_cmd(
                    'resume_workflow', wf_ex_id=sid, env=None),
                    'resume ' + w[3]))
            for st in ('SUCCESS', 'ERROR', 'CANCELLED'):
                k = 'stop_sub:' + st
                if self._allowed(k) and sstate not in FINAL:
                    out.append(self._mk(k, lab, self._engine_cmd(
                        'stop_workflow', wf_ex_id=sid, state=st,
                        message='stopped-by-operator'),
                        'stop %s %s' % (w[3], st)))
        for i, w in enumerate(subs):
            sid, sstate = w[0], w[1]
            for st in ('SUCCESS', 'ERROR', 'CANCELLED'):
                k = 'stop_sub_any:' + st
                if self._allowed(k) and sstate in FINAL:
                    out.append(self._mk(k, 'sub%d' % i, self._engine_cmd(
                        'stop_workflow', wf_ex_id=sid, state=st,
                        message='stopped-again'),
                        'stop the finished %s %s' % (w[3], st)))
        if any(self._allowed(k) for k in ('rerun', 'rerun_noreset', 'skip')):
            ts = q("select id, name, state from task_executions_v2 "
                   "where state in (%s) order by id" % ','.join(
                       "'%s'" % x for x in getattr(self, 'rerun_states',
                                                   ('ERROR',))))
            for tid, tname, tstate in ts:
                if self.only_tasks is not None and \
                        tname not in self.only_tasks:
                    continue
                n_same = sum(1 for x in ts if x[1] == tname)
                if n_same > 1 or getattr(self, 'label_by_id', False):
                    tname = '%s.%s' % (tname, tid[-4:])
                if self._allowed('rerun'):
                    out.append(self._mk('rerun', tname, self._engine_cmd(
                        'rerun_workflow', task_ex_id=tid, reset=True,
                        skip=False, env=None), 'rerun ' + tname,
                        is_rerun=True))
                if self._allowed('rerun_noreset'):
                    out.append(self._mk(
                        'rerun_noreset', tname, self._engine_cmd(
                            'rerun_workflow', task_ex_id=tid, reset=False,
                            skip=False, env=None), 'rerun(no reset) ' + tname,
                        is_rerun=True))
                if self._allowed('skip'):
                    out.append(self._mk('skip', tname, self._engine_cmd(
                        'rerun_workflow', task_ex_id=tid, reset=True,
                        skip=True, env=None), 'skip ' + tname,
                        is_rerun=True))
        if self._allowed('late_result'):
            from mistral_lib import actions as ml_actions
            acts = q("select id, state from action_executions_v2 "
                     "where state in ('SUCCESS','ERROR','CANCELLED') "
                     "order by id")
            for aid, astate in acts:
                res = ml_actions.Result(error='late-dup') \
                    if astate == 'SUCCESS' else ml_actions.Result(data='late')
                out.append(self._mk('late_result', aid[-4:],
                                    self._engine_cmd(
                    'on_action_complete', action_ex_id=aid, result=res,
                    wf_action=False),
                    'late contradicting result for a completed action'))
        if any(self._allowed(k) for k in ('async_ok', 'async_err',
                                          'async_pause', 'async_resume',
                                          'async_cancel')):
            acts = q("select id, state, name from action_executions_v2 "
                     "where is_sync=0 order by id")
            from mistral_lib import actions as ml_actions
            for aid, astate, aname in acts:
                short = aid[-4:]
                if astate in ('RUNNING', 'PAUSED'):
                    if self._allowed('async_ok'):
                        out.append(self._mk('async_ok', short,
                                            self._engine_cmd(
                            'on_action_complete', action_ex_id=aid,
                            result=ml_actions.Result(data='ext'),
                            wf_action=False), 'external result ok'))
                    if self._allowed('async_err'):
                        out.append(self._mk('async_err', short,
                                            self._engine_cmd(
                            'on_action_complete', action_ex_id=aid,
                            result=ml_actions.Result(error='ext-err'),
                            wf_action=False), 'external result error'))
                    if self._allowed('async_cancel'):
                        out.append(self._mk('async_cancel', short,
                                            self._engine_cmd(
                            'on_action_complete', action_ex_id=aid,
                            result=ml_actions.Result(error='c', cancel=True),
                            wf_action=False), 'external result cancel'))
                if astate == 'RUNNING' and self._allowed('async_pause'):
                    out.append(self._mk('async_pause', short,
                                        self._engine_cmd(
                        'on_action_update', action_ex_id=aid, state='PAUSED',
                        wf_action=False), 'external update PAUSED'))
                if astate == 'PAUSED' and self._allowed('async_resume'):
                    out.append(self._mk('async_resume', short,
                                        self._engine_cmd(
                        'on_action_update', action_ex_id=aid, state='RUNNING',
                        wf_action=False), 'external update RUNNING'))
        return out
