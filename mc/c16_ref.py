"""C16 reference model: which policy rule guards which REST operation, who is
allowed by the documented defaults, and which state-changing requests are
documented moves.  Written from the property statement and the API
documentation (policy descriptions, controller docstrings) - it does not
import or inspect the implementation.
"""
import json

ABSENT_ID = '00000000-0000-4000-8000-00000000dead'

# ---------------------------------------------------------------- policy
RESOURCES_CRUD = {
    'actions': ('create', 'delete', 'get', 'list', 'update'),
    'action_executions': ('create', 'delete', 'get', 'list', 'update'),
    'code_sources': ('create', 'delete', 'get', 'list', 'update'),
    'cron_triggers': ('create', 'delete', 'get', 'list'),
    'dynamic_actions': ('create', 'delete', 'get', 'list', 'update'),
    'environments': ('create', 'delete', 'get', 'list', 'update'),
    'event_triggers': ('create', 'delete', 'get', 'list', 'update'),
    'executions': ('create', 'delete', 'get', 'list', 'update'),
    'members': ('create', 'delete', 'get', 'list', 'update'),
    'tasks': ('get', 'list', 'update'),
    'workbooks': ('create', 'delete', 'get', 'list', 'update'),
    'workflows': ('create', 'delete', 'get', 'list', 'update'),
}
PUBLICIZE = ('actions', 'code_sources', 'cron_triggers', 'dynamic_actions',
             'environments', 'event_triggers', 'workbooks', 'workflows')
ALL_PROJECTS = ('cron_triggers', 'event_triggers', 'executions', 'workflows')
ADMIN_ONLY_RESOURCES = ('code_sources', 'dynamic_actions')


def documented_rules():
    """rule name -> 'admin_only' | 'admin_or_owner' (documented default)."""
    out = {}
    for res, ops in RESOURCES_CRUD.items():
        for op in ops:
            out['%s:%s' % (res, op)] = (
                'admin_only' if res in ADMIN_ONLY_RESOURCES
                else 'admin_or_owner')
    for res in PUBLICIZE:
        out['%s:publicize' % res] = 'admin_only'
    for res in ALL_PROJECTS:
        out['%s:list:all_projects' % res] = 'admin_only'
    return out


RULES = documented_rules()
BASE_RULES = ('admin_only', 'admin_or_owner')


def rule_allows(rule, admin, denied):
    """Does `rule` let the caller through?  The caller always acts on its
    own project, so 'owner' is true; denied = rules overridden to '!'."""
    if '*' in denied or rule in denied:
        return False
    base = RULES[rule]
    if base in denied:
        return False
    return True if base == 'admin_or_owner' else bool(admin)


def decision(rules, admin, denied):
    """First applicable rule that refuses the caller, or None."""
    for r in rules:
        if not rule_allows(r, admin, denied):
            return r
    return None


# ---------------------------------------------------------------- routes
WB = """---
version: '2.0'
name: %s
workflows:
  w:
    tasks:
      t:
        action: std.noop
"""
WF = """---
version: '2.0'
%s:
  description: changed
  tasks:
    t1:
      action: std.noop
"""
ACT = """---
version: '2.0'
%s:
  base: std.echo
  base-input:
    output: changed
"""
CODE = "x = 1\n"


def V(v, http, url, rules, body=None, ctype=None, ok=(200,), present=True,
      project='P1'):
    return {'v': v, 'http': http, 'url': url, 'rules': list(rules),
            'body': body, 'ctype': ctype, 'ok': list(ok),
            'present': present, 'project': project}


def _crud_named(res, path, present_name, free_name, absent='nope',
                get_rules=None):
    """get / delete by name for present and absent resources."""
    return {
        'get': [
            V('present', 'GET', '%s/%s' % (path, present_name),
              ['%s:get' % res]),
            V('absent', 'GET', '%s/%s' % (path, absent), ['%s:get' % res],
              ok=(404,), present=False),
        ],
        'delete': [
            V('present', 'DELETE', '%s/%s' % (path, free_name),
              ['%s:delete' % res], ok=(204,)),
            V('absent', 'DELETE', '%s/%s' % (path, absent),
              ['%s:delete' % res], ok=(404,), present=False),
        ],
    }


def routes(fx):
    """(controller class, mount path, method) -> list of request variants
    with the rules that apply to each, in the documented order."""
    R = {}
    J = json.dumps

    def scoped(res, http, url_priv, url_pub, body_priv, body_pub, ctype, op,
               ok, tag, present=True):
        return [
            V(tag + '-private', http, url_priv, ['%s:%s' % (res, op)],
              body_priv, ctype, ok=ok, present=present),
            V(tag + '-public', http, url_pub,
              ['%s:%s' % (res, op), '%s:publicize' % res],
              body_pub, ctype, ok=ok, present=present),
        ]

    # ---- workbooks
    c, p = 'WorkbooksController', '/v2/workbooks'
    d = _crud_named('workbooks', p, 'wb1', 'wb_free')
    R[(c, p, 'get')] = d['get']
    R[(c, p, 'delete')] = d['delete']
    R[(c, p, 'get_all')] = [V('plain', 'GET', p, ['workbooks:list'])]
    R[(c, p, 'post')] = scoped(
        'workbooks', 'POST', p, p + '?scope=public', WB % 'wb_new',
        WB % 'wb_new', 'text', 'create', (201,), 'new')
    R[(c, p, 'put')] = (
        scoped('workbooks', 'PUT', p, p + '?scope=public', WB % 'wb1',
               WB % 'wb1', 'text', 'update', (200,), 'present') +
        scoped('workbooks', 'PUT', p, p + '?scope=public', WB % 'wb_nope',
               WB % 'wb_nope', 'text', 'update', (404,), 'absent',
               present=False))

    # ---- workflows
    c, p = 'WorkflowsController', '/v2/workflows'
    d = _crud_named('workflows', p, 'wf1', 'wf_free')
    R[(c, p, 'get')] = d['get'] + [
        V('present-by-id', 'GET', '%s/%s' % (p, fx['wf1']),
          ['workflows:get'])]
    R[(c, p, 'delete')] = d['delete']
    R[(c, p, 'get_all')] = [
        V('plain', 'GET', p, ['workflows:list']),
        V('all_projects', 'GET', p + '?all_projects=true',
          ['workflows:list', 'workflows:list:all_projects']),
    ]
    R[(c, p, 'post')] = scoped(
        'workflows', 'POST', p, p + '?scope=public', WF % 'wf_new',
        WF % 'wf_new', 'text', 'create', (201,), 'new')
    R[(c, p, 'put')] = (
        scoped('workflows', 'PUT', p, p + '?scope=public', WF % 'wf_free',
               WF % 'wf_free', 'text', 'update', (200,), 'present') +
        scoped('workflows', 'PUT', p, p + '?scope=public', WF % 'wf_nope',
               WF % 'wf_nope', 'text', 'update', (404,), 'absent',
               present=False))

    # ---- actions
    c, p = 'ActionsController', '/v2/actions'
    d = _crud_named('actions', p, 'act1', 'act_free')
    R[(c, p, 'get')] = d['get']
    R[(c, p, 'delete')] = d['delete']
    R[(c, p, 'get_all')] = [V('plain', 'GET', p, ['actions:list'])]
    R[(c, p, 'post')] = scoped(
        'actions', 'POST', p, p + '?scope=public', ACT % 'act_new',
        ACT % 'act_new', 'text', 'create', (201,), 'new')
    R[(c, p, 'put')] = (
        scoped('actions', 'PUT', p, p + '?scope=public', ACT % 'act1',
               ACT % 'act1', 'text', 'update', (200,), 'present') +
        scoped('actions', 'PUT', p, p + '?scope=public', ACT % 'act_nope',
               ACT % 'act_nope', 'text', 'update', (404,), 'absent',
               present=False))

    # ---- code sources
    c, p = 'CodeSourcesController', '/v2/code_sources'
    d = _crud_named('code_sources', p, 'cs1', 'cs_free')
    R[(c, p, 'get')] = d['get']
    R[(c, p, 'delete')] = d['delete']
    R[(c, p, 'get_all')] = [
        V('plain', 'GET', p, ['code_sources:list']),
        V('all_projects', 'GET', p + '?all_projects=true',
          ['code_sources:list']),
    ]
    R[(c, p, 'post')] = scoped(
        'code_sources', 'POST', p + '?name=cs_new',
        p + '?name=cs_new&scope=public', CODE, CODE, 'text', 'create',
        (201,), 'new')
    R[(c, p, 'put')] = (
        scoped('code_sources', 'PUT', p + '/cs1', p + '/cs1?scope=public',
               CODE, CODE, 'text', 'update', (200,), 'present') +
        scoped('code_sources', 'PUT', p + '/nope', p + '/nope?scope=public',
               CODE, CODE, 'text', 'update', (404,), 'absent',
               present=False))

    # ---- dynamic actions
    c, p = 'DynamicActionsController', '/v2/dynamic_actions'
    d = _crud_named('dynamic_actions', p, 'da1', 'da_free')
    R[(c, p, 'get')] = d['get']
    R[(c, p, 'delete')] = d['delete']
    R[(c, p, 'get_all')] = [
        V('plain', 'GET', p, ['dynamic_actions:list']),
        V('all_projects', 'GET', p + '?all_projects=true',
          ['dynamic_actions:list']),
    ]
    nb = {'name': 'da_new', 'class_name': 'A1', 'code_source_id': fx['cs1']}
    R[(c, p, 'post')] = scoped(
        'dynamic_actions', 'POST', p, p, nb, dict(nb, scope='public'), None,
        'create', (201,), 'new')
    ub = {'name': 'da1', 'class_name': 'A2'}
    xb = {'name': 'da_nope', 'class_name': 'A2'}
    R[(c, p, 'put')] = (
        scoped('dynamic_actions', 'PUT', p, p, ub, dict(ub, scope='public'),
               None, 'update', (200,), 'present') +
        scoped('dynamic_actions', 'PUT', p, p, xb, dict(xb, scope='public'),
               None, 'update', (404,), 'absent', present=False))

    # ---- environments
    c, p = 'EnvironmentController', '/v2/environments'
    d = _crud_named('environments', p, 'env1', 'env_free')
    R[(c, p, 'get')] = d['get']
    R[(c, p, 'delete')] = d['delete']
    R[(c, p, 'get_all')] = [V('plain', 'GET', p, ['environments:list'])]
    nb = {'name': 'env_new', 'variables': J({'a': 1})}
    R[(c, p, 'post')] = scoped(
        'environments', 'POST', p, p, nb, dict(nb, scope='public'), None,
        'create', (201,), 'new')
    ub = {'name': 'env1', 'variables': J({'a': 2})}
    xb = {'name': 'env_nope', 'variables': J({'a': 2})}
    R[(c, p, 'put')] = (
        scoped('environments', 'PUT', p, p, ub, dict(ub, scope='public'),
               None, 'update', (200,), 'present') +
        scoped('environments', 'PUT', p, p, xb, dict(xb, scope='public'),
               None, 'update', (404,), 'absent', present=False))

    # ---- cron triggers
    c, p = 'CronTriggersController', '/v2/cron_triggers'
    d = _crud_named('cron_triggers', p, 'ct1', 'ct1')
    R[(c, p, 'get')] = d['get']
    R[(c, p, 'delete')] = d['delete']
    R[(c, p, 'get_all')] = [
        V('plain', 'GET', p, ['cron_triggers:list']),
        V('all_projects', 'GET', p + '?all_projects=true',
          ['cron_triggers:list', 'cron_triggers:list:all_projects']),
    ]
    nb = {'name': 'ct_new', 'workflow_name': 'wf1', 'pattern': '*/5 * * * *'}
    R[(c, p, 'post')] = scoped(
        'cron_triggers', 'POST', p, p, nb, dict(nb, scope='public'), None,
        'create', (201,), 'new')

    # ---- event triggers
    c, p = 'EventTriggersController', '/v2/event_triggers'
    R[(c, p, 'get')] = [
        V('present', 'GET', '%s/%s' % (p, fx['et1']),
          ['event_triggers:get']),
        V('absent', 'GET', '%s/%s' % (p, ABSENT_ID), ['event_triggers:get'],
          ok=(404,), present=False)]
    R[(c, p, 'delete')] = [
        V('present', 'DELETE', '%s/%s' % (p, fx['et1']),
          ['event_triggers:delete'], ok=(204,)),
        V('absent', 'DELETE', '%s/%s' % (p, ABSENT_ID),
          ['event_triggers:delete'], ok=(404,), present=False)]
    R[(c, p, 'get_all')] = [
        V('plain', 'GET', p, ['event_triggers:list']),
        V('all_projects', 'GET', p + '?all_projects=true',
          ['event_triggers:list', 'event_triggers:list:all_projects']),
    ]
    nb = {'name': 'et_new', 'workflow_id': fx['wf1'], 'exchange': 'x2',
          'topic': 't2', 'event': 'e.v2'}
    R[(c, p, 'post')] = scoped(
        'event_triggers', 'POST', p, p, nb, dict(nb, scope='public'), None,
        'create', (201,), 'new')
    ub = {'name': 'et_renamed'}
    u1, u0 = '%s/%s' % (p, fx['et1']), '%s/%s' % (p, ABSENT_ID)
    R[(c, p, 'put')] = (
        scoped('event_triggers', 'PUT', u1, u1, ub, dict(ub, scope='public'),
               None, 'update', (200,), 'present') +
        scoped('event_triggers', 'PUT', u0, u0, ub, dict(ub, scope='public'),
               None, 'update', (404,), 'absent', present=False))

    # ---- executions
    c, p = 'ExecutionsController', '/v2/executions'
    R[(c, p, 'get')] = [
        V('present', 'GET', '%s/%s' % (p, fx['ex_run']), ['executions:get']),
        V('absent', 'GET', '%s/%s' % (p, ABSENT_ID), ['executions:get'],
          ok=(404,), present=False)]
    R[(c, p, 'get_all')] = [
        V('plain', 'GET', p, ['executions:list']),
        V('all_projects', 'GET', p + '?all_projects=true',
          ['executions:list', 'executions:list:all_projects']),
        V('project_id', 'GET', p + '?project_id=' + ABSENT_ID,
          ['executions:list', 'executions:list:all_projects']),
    ]
    R[(c, p, 'post')] = [
        V('new', 'POST', p, ['executions:create'],
          {'workflow_name': 'wf1'}, ok=(201,)),
        V('new-by-id', 'POST', p, ['executions:create'],
          {'workflow_id': fx['wf1'], 'description': 'd'}, ok=(201,)),
        V('unknown-workflow', 'POST', p, ['executions:create'],
          {'workflow_name': 'wf_nope'}, ok=(404,), present=False),
    ]
    R[(c, p, 'put')] = [
        V('present', 'PUT', '%s/%s' % (p, fx['ex_run']),
          ['executions:update'], {'state': 'PAUSED'}),
        V('present-description', 'PUT', '%s/%s' % (p, fx['ex_run']),
          ['executions:update'], {'description': 'new'}),
        V('absent', 'PUT', '%s/%s' % (p, ABSENT_ID), ['executions:update'],
          {'state': 'PAUSED'}, ok=(404,), present=False)]
    R[(c, p, 'delete')] = [
        V('present-finished', 'DELETE', '%s/%s' % (p, fx['ex_ok']),
          ['executions:delete'], ok=(204,)),
        V('present-forced', 'DELETE', '%s/%s?force=true' % (p, fx['ex_run']),
          ['executions:delete'], ok=(204,)),
        V('absent', 'DELETE', '%s/%s' % (p, ABSENT_ID),
          ['executions:delete'], ok=(404,), present=False)]
    for sub, cls, rule in (
            ('executions', 'SubExecutionsController', 'executions:get'),
            ('report', 'ExecutionReportController', 'executions:get')):
        R[(cls, '/v2/executions/' + sub, 'get')] = [
            V('present', 'GET', '%s/%s/%s' % (p, fx['ex_run'], sub), [rule]),
            V('absent', 'GET', '%s/%s/%s' % (p, ABSENT_ID, sub), [rule],
              ok=(404, 200), present=False)]
    R[('ExecutionTasksController', '/v2/executions/tasks', 'get_all')] = [
        V('present', 'GET', '%s/%s/tasks' % (p, fx['ex_run']),
          ['tasks:list']),
        V('absent', 'GET', '%s/%s/tasks' % (p, ABSENT_ID), ['tasks:list'],
          ok=(404,), present=False)]

    # ---- tasks
    c, p = 'TasksController', '/v2/tasks'
    R[(c, p, 'get')] = [
        V('present', 'GET', '%s/%s' % (p, fx['t_run']), ['tasks:get']),
        V('absent', 'GET', '%s/%s' % (p, ABSENT_ID), ['tasks:get'],
          ok=(404,), present=False)]
    R[(c, p, 'get_all')] = [V('plain', 'GET', p, ['tasks:list'])]
    R[(c, p, 'put')] = [
        V('present', 'PUT', '%s/%s' % (p, fx['t_err']), ['tasks:update'],
          {'state': 'RUNNING', 'reset': True}),
        V('absent', 'PUT', '%s/%s' % (p, ABSENT_ID), ['tasks:update'],
          {'state': 'RUNNING', 'reset': True}, ok=(404,), present=False)]
    cls = 'TasksActionExecutionController'
    sp = '/v2/tasks/action_executions'
    R[(cls, sp, 'get_all')] = [
        V('present', 'GET', '%s/%s/action_executions' % (p, fx['t_run']),
          ['action_executions:list']),
        V('absent', 'GET', '%s/%s/action_executions' % (p, ABSENT_ID),
          ['action_executions:list'], ok=(200, 404), present=False)]
    R[(cls, sp, 'get')] = [
        V('present', 'GET', '%s/%s/action_executions/%s'
          % (p, fx['t_run'], fx['a_run']), ['action_executions:get']),
        V('absent', 'GET', '%s/%s/action_executions/%s'
          % (p, fx['t_run'], ABSENT_ID), ['action_executions:get'],
          ok=(404,), present=False)]
    R[('SubExecutionsController', '/v2/tasks/executions', 'get')] = [
        V('present', 'GET', '%s/%s/executions' % (p, fx['t_run']),
          ['executions:get']),
        V('absent', 'GET', '%s/%s/executions' % (p, ABSENT_ID),
          ['executions:get'], ok=(404, 200), present=False)]
    R[('TaskExecutionsController', '/v2/tasks/workflow_executions',
       'get_all')] = [
        V('present', 'GET', '%s/%s/workflow_executions' % (p, fx['t_run']),
          ['executions:list']),
        V('absent', 'GET', '%s/%s/workflow_executions' % (p, ABSENT_ID),
          ['executions:list'], ok=(200, 404), present=False)]

    # ---- action executions
    c, p = 'ActionExecutionsController', '/v2/action_executions'
    R[(c, p, 'get')] = [
        V('present', 'GET', '%s/%s' % (p, fx['a_run']),
          ['action_executions:get']),
        V('absent', 'GET', '%s/%s' % (p, ABSENT_ID),
          ['action_executions:get'], ok=(404,), present=False)]
    R[(c, p, 'get_all')] = [V('plain', 'GET', p, ['action_executions:list'])]
    R[(c, p, 'post')] = [
        V('new', 'POST', p, ['action_executions:create'],
          {'name': 'verif.async_act', 'input': J({'key': 'n'}),
           'params': J({'save_result': True})}, ok=(201,)),
        V('unknown-action', 'POST', p, ['action_executions:create'],
          {'name': 'no.such_action'}, ok=(400, 404), present=False)]
    R[(c, p, 'put')] = [
        V('present', 'PUT', '%s/%s' % (p, fx['a_adhoc_run']),
          ['action_executions:update'], {'state': 'SUCCESS',
                                         'output': J({'r': 1})}),
        V('absent', 'PUT', '%s/%s' % (p, ABSENT_ID),
          ['action_executions:update'], {'state': 'SUCCESS'}, ok=(404,),
          present=False)]
    R[(c, p, 'delete')] = [
        V('present', 'DELETE', '%s/%s' % (p, fx['a_adhoc_done']),
          ['action_executions:delete'], ok=(204,)),
        V('absent', 'DELETE', '%s/%s' % (p, ABSENT_ID),
          ['action_executions:delete'], ok=(404,), present=False)]

    # ---- members (sub-resource of a workflow, reached through _lookup)
    c, p = 'MembersController', '/v2/workflows/{id}/members'
    mp = '/v2/workflows/%s/members' % fx['wf1']
    ap = '/v2/workflows/%s/members' % ABSENT_ID
    R[(c, p, 'get')] = [
        V('present', 'GET', mp + '/P2', ['members:get']),
        V('absent', 'GET', mp + '/P9', ['members:get'], ok=(404,),
          present=False)]
    R[(c, p, 'get_all')] = [
        V('present', 'GET', mp, ['members:list']),
        V('absent', 'GET', ap, ['members:list'], ok=(200, 404),
          present=False)]
    R[(c, p, 'post')] = [
        V('new', 'POST', mp, ['members:create'], {'member_id': 'P3'},
          ok=(201,)),
        V('absent', 'POST', ap, ['members:create'], {'member_id': 'P3'},
          ok=(404,), present=False)]
    R[(c, p, 'put')] = [
        V('present', 'PUT', mp + '/P2', ['members:update'],
          {'status': 'accepted'}, project='P2'),
        V('absent', 'PUT', mp + '/P9', ['members:update'],
          {'status': 'accepted'}, ok=(404,), present=False, project='P9')]
    R[(c, p, 'delete')] = [
        V('present', 'DELETE', mp + '/P2', ['members:delete'], ok=(204,)),
        V('absent', 'DELETE', mp + '/P9', ['members:delete'], ok=(404,),
          present=False)]
    return R


def unguarded(fx):
    """Operations documented as needing no policy rule.  `readonly` ones
    may answer anybody but must not change anything."""
    wf = WF % 'x'
    return {
        ('RootController', '', 'index'): dict(
            http='GET', url='/', body=None, ctype=None, readonly=True),
        ('Controller', '/v2', 'index'): dict(
            http='GET', url='/v2/', body=None, ctype=None, readonly=True),
        ('InfoController', '/info', 'get'): dict(
            http='GET', url='/info', body=None, ctype=None, readonly=True),
        ('MaintenanceController', '/maintenance', 'get'): dict(
            http='GET', url='/maintenance', body=None, ctype=None,
            readonly=True),
        ('MaintenanceController', '/maintenance', 'put'): dict(
            http='PUT', url='/maintenance', body={'status': 'PAUSED'},
            ctype=None, readonly=False),
        ('SpecValidationController', '/v2/workbooks/validate', 'post'): dict(
            http='POST', url='/v2/workbooks/validate', body=WB % 'v',
            ctype='text', readonly=True),
        ('SpecValidationController', '/v2/workflows/validate', 'post'): dict(
            http='POST', url='/v2/workflows/validate', body=wf,
            ctype='text', readonly=True),
        ('SpecValidationController', '/v2/actions/validate', 'post'): dict(
            http='POST', url='/v2/actions/validate', body=ACT % 'v',
            ctype='text', readonly=True),
    }


# ---------------------------------------------------------------- guards
WF_STATES = ('IDLE', 'RUNNING', 'PAUSED', 'SUCCESS', 'ERROR', 'CANCELLED')
TASK_STATES = ('IDLE', 'WAITING', 'RUNNING', 'RUNNING_DELAYED', 'PAUSED',
               'SUCCESS', 'CANCELLED', 'ERROR', 'SKIPPED')
ALL_STATES = TASK_STATES
REQ_STATES = (None,) + ALL_STATES + ('BOGUS',)
FINAL = ('SUCCESS', 'ERROR', 'CANCELLED')

REFUSE, MAY, MOVE, FIELD = 'refuse', 'may', 'move', 'field'


def exec_put(cur, state, desc, envv):
    """Verdict for PUT /v2/executions/<id> {state, description, params.env}.
    -> (verdict, expected engine call or None)"""
    if not (state or desc or envv):
        return REFUSE, None
    if desc and state:
        return REFUSE, None                 # description only separately
    if state and state not in ('PAUSED', 'RUNNING') + FINAL:
        return REFUSE, None                 # not a documented target state
    if state and envv and state != 'RUNNING':
        return REFUSE, None                 # env only on resume
    if not state:
        return FIELD, None                  # description and/or env only
    if state == 'PAUSED':
        return MOVE, ('pause_workflow', {})
    if state == 'RUNNING':
        return MOVE, ('resume_workflow', {})
    return MOVE, ('stop_workflow', {'state': state})


def task_put(cur, state, reset, with_items):
    """Verdict for PUT /v2/tasks/<id> {state, reset}."""
    if state not in ('RUNNING', 'SKIPPED'):
        return REFUSE, None
    if cur != 'ERROR':
        return REFUSE, None
    call = ('rerun_workflow', {'skip': state == 'SKIPPED'})
    if state == 'RUNNING' and (reset is None or
                               (not with_items and not reset)):
        # the statement is silent on the reset argument; the API text says
        # it is refused - either outcome is accepted
        return MAY, call
    return MOVE, call


def action_put(cur, state):
    """Verdict for PUT /v2/action_executions/<id> {state, output}."""
    if state in FINAL:
        return MOVE, ('on_action_complete', {})
    if state in ('PAUSED', 'RUNNING'):
        return MOVE, ('on_action_update', {'state': state})
    return REFUSE, None


def exec_delete(cur, force):
    if cur not in FINAL and not force:
        return REFUSE
    return MAY
