"""C18 reference model: which root executions an evaluation of the execution
expiration policy may / must delete.  Pure Python, independent of Mistral.

A root is a dict {id, state, age} with age = seconds between the root's
last update and the evaluation instant (larger = older).  Settings is a
dict {ot, mf, bs, ign}: older_than (minutes, None = unset),
max_finished_executions (None = unset), batch_size, ignored_states.

Reading of the property statement implemented here:

* eligible = root, state in {SUCCESS, ERROR, CANCELLED} minus ignored states;
* age criterion configured iff older_than is set and >= 1 (the documented
  minimum; unset and 0 both mean "no age criterion"); a root is expired iff
  it is STRICTLY older than older_than minutes ("older than the configured
  age"; exactly equal is not older);
* count criterion configured iff max_finished_executions is set and >= 1
  (0 = "this constraint won't be applied"); a root is superfluous iff at
  least N other eligible roots are at least as recent (ties broken in the
  implementation's favour);
* a deletion is allowed only if the root is eligible and (expired or
  superfluous); every expired root must be gone after the evaluation and at
  most N eligible roots may remain; no eligible root may be kept while a
  strictly newer eligible one was deleted.
With distinct ages this makes the set of deleted roots unique ("deleted set
= reference set"); with tied ages any tie-break is accepted.
"""

STATES = ('IDLE', 'RUNNING', 'PAUSED', 'SUCCESS', 'ERROR', 'CANCELLED')
TERMINAL = ('SUCCESS', 'ERROR', 'CANCELLED')


def eligible(roots, st):
    ign = set(st['ign'] or ())
    return [r for r in roots
            if r['state'] in TERMINAL and r['state'] not in ign]


def criteria(st):
    ot, mf = st['ot'], st['mf']
    return (ot is not None and ot >= 1), (mf is not None and mf >= 1)


def verdicts(roots, st, deleted):
    """-> list of (kind, text).  `deleted` = ids of roots that are gone."""
    ot, mf = st['ot'], st['mf']
    ign = set(st['ign'] or ())
    age_on, cnt_on = criteria(st)
    elig = eligible(roots, st)
    out = []
    for r in roots:
        if r['id'] not in deleted:
            continue
        d = '%s(state=%s, age=%ds)' % (r['id'], r['state'], r['age'])
        if r['state'] not in TERMINAL:
            out.append(('UNSAFE-DELETE',
                        'non-finished root execution deleted: %s' % d))
            continue
        if r['state'] in ign:
            out.append(('UNSAFE-DELETE',
                        'root execution in an ignored state deleted: %s' % d))
            continue
        by_age = age_on and r['age'] > ot * 60
        at_least_as_recent = sum(1 for e in elig if e['id'] != r['id']
                                 and e['age'] <= r['age'])
        by_cnt = cnt_on and at_least_as_recent >= mf
        if not (by_age or by_cnt):
            why = []
            if age_on:
                why.append('not older than older_than=%d min' % ot)
            else:
                why.append('no age criterion configured (older_than=%s)'
                           % ('unset' if ot is None else ot))
            if cnt_on:
                why.append('among the %d most recent finished '
                           '(only %d at least as recent)'
                           % (mf, at_least_as_recent))
            else:
                why.append('no count criterion configured '
                           '(max_finished_executions=%s)'
                           % ('unset' if mf is None else mf))
            out.append(('UNSAFE-DELETE',
                        'finished root deleted although %s: %s'
                        % (' and '.join(why), d)))
    kept = [e for e in elig if e['id'] not in deleted]
    gone = [e for e in elig if e['id'] in deleted]
    for g in gone:
        older_kept = [k for k in kept if k['age'] > g['age']]
        if older_kept:
            k = older_kept[0]
            out.append(('ORDER',
                        'newer execution %s(age=%ds) deleted while older '
                        'eligible %s(state=%s, age=%ds) is kept'
                        % (g['id'], g['age'], k['id'], k['state'], k['age'])))
            break
    if age_on:
        late = [k for k in kept if k['age'] > ot * 60]
        if late:
            out.append(('NOT-DELETED',
                        '%d finished root(s) older than older_than=%d min '
                        'remain, e.g. %s(state=%s, age=%ds)'
                        % (len(late), ot, late[0]['id'], late[0]['state'],
                           late[0]['age'])))
    if cnt_on and len(kept) > mf:
        out.append(('NOT-DELETED',
                    '%d finished root executions remain although '
                    'max_finished_executions=%d' % (len(kept), mf)))
    return out


def expectation(roots, st):
    """(must_delete, must_keep_finished) counts for vacuity statistics: how
    many roots every allowed outcome deletes / how many finished roots every
    allowed outcome keeps."""
    ot, mf = st['ot'], st['mf']
    age_on, cnt_on = criteria(st)
    elig = eligible(roots, st)
    must, may = set(), set()
    for r in elig:
        if age_on and r['age'] > ot * 60:
            must.add(r['id'])
    if cnt_on:
        for r in elig:
            strictly_newer = sum(1 for e in elig if e['age'] < r['age'])
            at_least = sum(1 for e in elig if e['id'] != r['id']
                           and e['age'] <= r['age'])
            if strictly_newer >= mf:
                must.add(r['id'])
            elif at_least >= mf:
                may.add(r['id'])
    may |= must
    finished = [r for r in roots if r['state'] in TERMINAL]
    keep = [r for r in finished if r['id'] not in may]
    return len(must), len(keep)
