"""Seam self-test: fails loudly if a patched attribute disappeared."""
import sys
import os
sys.path.insert(0, os.path.dirname(os.path.dirname(os.path.abspath(__file__))))


def main():
    from mc import env
    from mistral.db.sqlalchemy import base as b
    from mistral.engine import post_tx_queue
    from mistral.rpc import base as rpc_base
    import mistral_lib.utils as mlu
    assert b._get_session is env._get_session
    assert post_tx_queue.threading is env._ThreadingShim
    assert rpc_base._IMPL_CLIENT is env.Driver
    assert mlu._th_loc_storage is env.GL
    assert hasattr(post_tx_queue, '_process_queue')
    from mc import wfscn, wfgen, explore
    scn = wfscn.ProgScenario('selftest', wfgen.curated()['seq2'],
                             results={'a': ['S'], 'b': ['S']})
    r = explore.Explorer(scn, bound=None).run()
    assert not r.violations and not r.error, (r.violations, r.error)
    assert r.stats['executions'] >= 1
    print('selftest ok: tree=%s states=%d' % (env.TREE, r.stats['states']))


if __name__ == '__main__':
    main()
