"""C15 reference model of tenant isolation (independent of Mistral's query
layer: it reads the raw SQLite rows).

    visible(row, caller)  = caller.admin  or  row.project_id == caller.project
                            or row.scope == 'public'
                            or accepted share of a workflow definition
    must_see(row, caller) = the same without the admin clause
    mutable(row, caller)  = caller.admin  or  row.project_id == caller.project
    new rows              : project_id == caller.project

`judge` compares one executed operation (rows it returned, DB before, DB
after) with that model and returns the breaches.
"""
import hashlib
import json
import re

# type key -> table
TABLES = {
    'workbook': 'workbooks_v2',
    'workflow': 'workflow_definitions_v2',
    'action': 'action_definitions_v2',
    'code_source': 'code_sources',
    'dynamic_action': 'dynamic_action_definitions',
    'environment': 'environments_v2',
    'cron_trigger': 'cron_triggers_v2',
    'event_trigger': 'event_triggers_v2',
    'wf_ex': 'workflow_executions_v2',
    'task_ex': 'task_executions_v2',
    'action_ex': 'action_executions_v2',
}
MEMBERS = 'resource_members_v2'
# only workflow definitions are shareable in the property statement
SHARE_TYPE = {'workflow_definitions_v2': 'workflow'}
REFS = [('workflow_id', 'workflow_definitions_v2'),
        ('code_source_id', 'code_sources')]
VERB = {'delete': 'deleted', 'modify': 'modified'}


class Caller(object):
    def __init__(self, project, admin=False, label=None):
        self.project, self.admin = project, admin
        self.label = label or project


def dump(conn):
    """{table: {id: {col: value}}} of all tenant-owned tables."""
    c = conn.cursor()
    out = {}
    for t in list(TABLES.values()) + [MEMBERS]:
        c.execute('select * from %s' % t)
        cols = [d[0] for d in c.description]
        out[t] = {}
        for r in c.fetchall():
            d = dict(zip(cols, r))
            out[t][d['id']] = d
    return out


_REQ = re.compile(r'req-[0-9a-f]{8}-[0-9a-f-]{27}')


def state_hash(d):
    # oslo.context request ids (random) are stored in execution contexts
    return hashlib.blake2b(
        _REQ.sub('req-x', json.dumps(d, sort_keys=True, default=str)).encode(),
        digest_size=12).hexdigest()


def share_status(d, table, row, project):
    st = SHARE_TYPE.get(table)
    if not st:
        return None
    for m in d[MEMBERS].values():
        if (m['resource_id'] == row['id'] and m['resource_type'] == st
                and m['member_id'] == project):
            return m['status']
    return None


def must_see(d, table, row, caller):
    return (row['project_id'] == caller.project or row['scope'] == 'public'
            or share_status(d, table, row, caller.project) == 'accepted')


def visible(d, table, row, caller):
    return caller.admin or must_see(d, table, row, caller)


def mutable(row, caller):
    return caller.admin or row['project_id'] == caller.project


def member_party(m, caller):
    return (caller.admin or m['project_id'] == caller.project
            or m['member_id'] == caller.project)


def find_row(d, rid):
    for t, rows in d.items():
        if t != MEMBERS and rid in rows:
            return t, rows[rid]
    return None, None


def relation(d, table, row, caller):
    """How the caller relates to a row (for messages / grouping)."""
    if caller.admin:
        return 'admin'
    if row['project_id'] == caller.project:
        return 'owner'
    s = share_status(d, table, row, caller.project)
    return 'member-%s' % s if s else 'other'


def _kind(d, table, row, caller):
    """foreign-private / foreign-public / foreign-shared (accepted) /
    foreign-unaccepted (pending or rejected share)."""
    if row['scope'] == 'public':
        return 'foreign-public'
    s = share_status(d, table, row, caller.project)
    if s == 'accepted':
        return 'foreign-shared'
    if s:
        return 'foreign-unaccepted-share'
    return 'foreign-private'


def judge(pre, post, caller, returned_ids=(), leaked_marks=(), required=None,
          mode=None, returned_anything=None):
    """-> list of (breach, detail).

    returned_ids: ids of rows the call handed to the caller.
    leaked_marks: ids of rows whose private content marker appeared in the
                  output.
    required/mode: rows (table, id) matching the selector of a read; mode
                  'one' (at least one must-see row => something returned) or
                  'many' (every must-see row returned).
    """
    out = []
    # 1. nothing invisible is handed out
    for rid in sorted(set(returned_ids) | set(leaked_marks)):
        t, row = find_row(pre, rid)
        if row is None:
            # a row created by this very call: covered by rule 3
            continue
        if not visible(pre, t, row, caller):
            out.append(('read-' + _kind(pre, t, row, caller),
                        '%s/%s owned by %s scope=%s reached by %s (%s)' % (
                            t, rid, row['project_id'], row['scope'],
                            caller.label, relation(pre, t, row, caller))))
    # 2. what must be readable is readable
    if mode and required is not None:
        need = [(t, i) for t, i in required
                if must_see(pre, t, pre[t][i], caller)]
        if mode == 'one' and need and not returned_anything:
            t, i = need[0]
            out.append(('hidden-' + ('own' if pre[t][i]['project_id'] ==
                                     caller.project else
                                     _kind(pre, t, pre[t][i], caller)[8:]),
                        '%s/%s owned by %s scope=%s not readable by %s' % (
                            t, i, pre[t][i]['project_id'],
                            pre[t][i]['scope'], caller.label)))
        if mode == 'many':
            for t, i in need:
                if i not in returned_ids:
                    out.append((
                        'hidden-' + ('own' if pre[t][i]['project_id'] ==
                                     caller.project else
                                     _kind(pre, t, pre[t][i], caller)[8:]),
                        '%s/%s owned by %s scope=%s not listed for %s' % (
                            t, i, pre[t][i]['project_id'],
                            pre[t][i]['scope'], caller.label)))
    # 3. only owner / admin change or delete; new rows belong to the caller
    for t in pre:
        for i, row in pre[t].items():
            new = post[t].get(i)
            if new == row:
                continue
            what = 'delete' if new is None else 'modify'
            if t == MEMBERS:
                if not member_party(row, caller):
                    out.append((what + '-foreign-membership',
                                'membership %s->%s of %s %s by %s' % (
                                    row['project_id'], row['member_id'],
                                    row['resource_id'], VERB[what],
                                    caller.label)))
                continue
            if not mutable(row, caller):
                cols = '' if new is None else ' cols=%s' % sorted(
                    k for k in row if row[k] != new.get(k)
                    and k != 'updated_at')
                out.append(('%s-%s' % (what, _kind(pre, t, row, caller)),
                            '%s/%s owned by %s scope=%s %s by %s (%s)%s' % (
                                t, i, row['project_id'], row['scope'],
                                VERB[what], caller.label,
                                relation(pre, t, row, caller), cols)))
        for i, row in post[t].items():
            if i in pre[t]:
                continue
            if row.get('project_id') != caller.project:
                out.append(('insert-foreign-owner',
                            'new %s/%s has project_id=%r, caller is %s' % (
                                t, i, row.get('project_id'), caller.project)))
            # 4. a new row may only be built on definitions the caller sees
            for col, rt in REFS:
                ref = row.get(col)
                if ref and ref in pre.get(rt, {}) and t != MEMBERS and \
                        not visible(pre, rt, pre[rt][ref], caller):
                    out.append(('use-' + _kind(pre, rt, pre[rt][ref], caller),
                                'new %s/%s of %s uses %s/%s owned by %s '
                                'scope=%s (%s)' % (
                                    t, i, caller.label, rt, ref,
                                    pre[rt][ref]['project_id'],
                                    pre[rt][ref]['scope'],
                                    relation(pre, rt, pre[rt][ref], caller))))
    return out
