"""Workflow programs: one structured representation that is (a) rendered to
Mistral YAML (YAQL or Jinja spelling) for the implementation and (b)
interpreted by the reference model (mc/refmodel.py).

Program (plain dict, JSON-able):
  {'type': 'direct'|'reverse',
   'input': {name: default}, 'vars': {name: expr}, 'output': {k: expr}|None,
   'output-on-error': {k: expr}|None,
   'task-defaults': {'on-success'|'on-error'|'on-complete': [trans]},
   'tasks': {name: {'key': str, 'action': 'act'|'async'|'noop',
                    'on-success'|'on-error'|'on-complete': [trans],
                    'join': 'all'|'one'|int, 'publish': {v: expr},
                    'publish-on-error': {v: expr}, 'requires': [names],
                    'retry': {...}, ...}}}
  trans = target | [target, guard-expr]
  expr  = ['lit', x] | ['var', v] | ['eq', v, x] | ['result'] | ['true']
          | ['false'] | ['bad'] | ['inc', v]
"""
import copy
import itertools
import json

import yaml

ENGINE_CMDS = ('fail', 'succeed', 'pause', 'noop')


# ------------------------------------------------------------------ render
def _expr(e, jinja):
    if not isinstance(e, (list, tuple)):
        return e
    op = e[0]
    if op == 'lit':
        return e[1]
    if jinja:
        inner = {
            'var': lambda: '_.%s' % e[1],
            'eq': lambda: '_.%s == %s' % (e[1], json.dumps(e[2])),
            'result': lambda: 'task().result',
            'true': lambda: 'true',
            'false': lambda: 'false',
            'bad': lambda: '1 // 0',
            'inc': lambda: '_.%s + 1' % e[1],
            'env': lambda: 'env().%s' % e[1],
        }[op]()
        return '{{ %s }}' % inner
    inner = {
        'var': lambda: '$.%s' % e[1],
        'eq': lambda: '$.%s = %s' % (e[1], json.dumps(e[2])),
        'result': lambda: 'task().result',
        'true': lambda: 'true',
        'false': lambda: 'false',
        'bad': lambda: '1 / 0',
        'inc': lambda: '$.%s + 1' % e[1],
        'env': lambda: 'env().%s' % e[1],
    }[op]()
    return '<% ' + inner + ' %>'


def _expr_deep(v, jinja):
    if isinstance(v, dict):
        return {k: _expr_deep(x, jinja) for k, x in v.items()}
    if isinstance(v, (list, tuple)) and v and isinstance(v[0], str) and \
            v[0] in ('lit', 'var', 'eq', 'result', 'true', 'false', 'bad',
                     'inc', 'env'):
        return _expr(v, jinja)
    return v


def _clause(trans, jinja):
    out = []
    for t in trans:
        if isinstance(t, (list, tuple)):
            out.append({t[0]: _expr(t[1], jinja)})
        else:
            out.append(t)
    return out


def render(prog, name='wf', jinja=False):
    wf = {}
    if prog.get('type', 'direct') != 'direct':
        wf['type'] = prog['type']
    if prog.get('input'):
        wf['input'] = [{k: v} for k, v in prog['input'].items()]
    if prog.get('vars'):
        wf['vars'] = _expr_deep(prog['vars'], jinja)
    if prog.get('output'):
        wf['output'] = _expr_deep(prog['output'], jinja)
    if prog.get('output-on-error'):
        wf['output-on-error'] = _expr_deep(prog['output-on-error'], jinja)
    td = prog.get('task-defaults')
    if td:
        d = {}
        for k, v in td.items():
            if k.startswith('on-'):
                d[k] = _clause(v, jinja)
            else:
                d[k] = _expr_deep(v, jinja)
        wf['task-defaults'] = d
    tasks = {}
    for tn, t in prog['tasks'].items():
        d = {}
        kind = t.get('action', 'act')
        key = t.get('key', tn)
        if t.get('workflow'):
            d['workflow'] = t['workflow']
            if t.get('workflow-expr'):
                # the child's name is computed (the model reads 'workflow')
                d['workflow'] = _expr(t['workflow-expr'], jinja)
            if t.get('wf-input'):
                d['input'] = _expr_deep(t['wf-input'], jinja)
        elif kind == 'act':
            d['action'] = 'verif.act'
            d['input'] = {'key': key}
        elif kind == 'async':
            d['action'] = 'verif.async_act'
            d['input'] = {'key': key}
        elif kind == 'noop':
            d['action'] = 'std.noop'
        elif kind == 'fail':
            d['action'] = 'std.fail'
        if t.get('with-items'):
            d['with-items'] = t['with-items']
            if not t.get('workflow'):
                d['action'] = 'verif.act'
                d['input'] = {'key': t.get(
                    'item-key', '<% $.i %>' if not jinja else '{{ _.i }}')}
        for k in ('on-success', 'on-error', 'on-complete', 'on-skip'):
            if t.get(k):
                d[k] = _clause(t[k], jinja)
        for k in ('join', 'requires', 'concurrency', 'timeout',
                  'wait-before', 'wait-after', 'pause-before', 'fail-on',
                  'safe-rerun', 'keep-result'):
            if t.get(k) is not None:
                d[k] = _expr_deep(t[k], jinja)
        if t.get('retry'):
            d['retry'] = _expr_deep(t['retry'], jinja)
        for k in ('publish', 'publish-on-error', 'publish-on-skip'):
            if t.get(k):
                d[k] = _expr_deep(t[k], jinja)
        for ck in ('on-success', 'on-error', 'on-complete'):
            if t.get(ck + '-publish'):
                # transition-level publish (advanced syntax)
                d[ck] = {
                    'publish': _expr_deep(t[ck + '-publish'], jinja)}
                if t.get(ck):
                    d[ck]['next'] = _clause(t[ck], jinja)
        tasks[tn] = d
    wf['tasks'] = tasks
    doc = {'version': '2.0', name: wf}
    for sname, sprog in (prog.get('subs') or {}).items():
        sub = yaml.safe_load(render(sprog, name=sname, jinja=jinja))
        doc[sname] = sub[sname]
    if prog.get('workbook'):
        # a workbook: members call each other by their short names
        wfs = {k: v for k, v in doc.items() if k != 'version'}
        doc = {'version': '2.0', 'name': prog['workbook'], 'workflows': wfs}
    return yaml.safe_dump(doc, sort_keys=False, default_flow_style=False)


# ------------------------------------------------------------------ helpers
def T(key=None, **kw):
    d = dict(kw)
    if key is not None:
        d['key'] = key
    return d


def direct(tasks, **kw):
    p = {'type': 'direct', 'tasks': tasks}
    p.update(kw)
    return p


def action_keys(prog):
    """Result-table keys of plain actions of a program."""
    return [t.get('key', n) for n, t in prog['tasks'].items()
            if t.get('action', 'act') in ('act', 'async')
            and not t.get('workflow') and not t.get('with-items')]


def result_assignments(prog, domain=('S', 'E'), limit=None, fixed=None):
    keys = action_keys(prog)
    fixed = fixed or {}
    free = [k for k in keys if k not in fixed]
    out = []
    for combo in itertools.product(domain, repeat=len(free)):
        r = dict(fixed)
        r.update({k: [c] for k, c in zip(free, combo)})
        for k in list(r):
            if not isinstance(r[k], list):
                r[k] = [r[k]]
        out.append(r)
        if limit and len(out) >= limit:
            break
    return out


# ------------------------------------------------------------------ curated
def curated():
    """Named small programs (simplest first)."""
    P = {}
    P['single'] = direct({'a': T()})
    P['seq2'] = direct({'a': T(**{'on-success': ['b']}), 'b': T()})
    P['seq3'] = direct({'a': T(**{'on-success': ['b']}),
                        'b': T(**{'on-success': ['c']}), 'c': T()})
    P['err_route'] = direct({
        'a': T(**{'on-success': ['b'], 'on-error': ['c']}),
        'b': T(), 'c': T()})
    P['complete_route'] = direct({
        'a': T(**{'on-complete': ['b']}), 'b': T()})
    P['err_noop'] = direct({'a': T(**{'on-error': ['noop']})})
    P['fork2'] = direct({'a': T(**{'on-success': ['b', 'c']}),
                         'b': T(), 'c': T()})
    P['two_starts'] = direct({'a': T(), 'b': T()})
    P['diamond'] = direct({
        'a': T(**{'on-success': ['b', 'c']}),
        'b': T(**{'on-success': ['d']}),
        'c': T(**{'on-success': ['d']}),
        'd': T(join='all')})
    P['diamond_complete'] = direct({
        'a': T(**{'on-success': ['b', 'c']}),
        'b': T(**{'on-complete': ['d']}),
        'c': T(**{'on-complete': ['d']}),
        'd': T(join='all')})
    P['join_two_starts'] = direct({
        'a': T(**{'on-success': ['c']}),
        'b': T(**{'on-success': ['c']}),
        'c': T(join='all')})
    P['join_one'] = direct({
        'a': T(**{'on-success': ['c']}),
        'b': T(**{'on-success': ['c']}),
        'c': T(join='one')})
    P['join_2of3'] = direct({
        'a': T(**{'on-success': ['d']}),
        'b': T(**{'on-success': ['d']}),
        'c': T(**{'on-success': ['d']}),
        'd': T(join=2)})
    P['join_err_routes'] = direct({
        'a': T(**{'on-error': ['c'], 'on-success': ['c']}),
        'b': T(**{'on-complete': ['c']}),
        'c': T(join='all')})
    P['join_then'] = direct({
        'a': T(**{'on-success': ['c']}),
        'b': T(**{'on-success': ['c']}),
        'c': T(join='all', **{'on-success': ['d']}),
        'd': T()})
    P['join_onerror_handler'] = direct({
        'a': T(**{'on-success': ['c']}),
        'b': T(**{'on-success': ['c']}),
        'c': T(join='all', **{'on-error': ['e']}),
        'e': T()})
    P['nested_join'] = direct({
        'a': T(**{'on-success': ['c']}),
        'b': T(**{'on-success': ['c', 'd']}),
        'c': T(join='all', **{'on-success': ['e']}),
        'd': T(**{'on-success': ['e']}),
        'e': T(join='all')})
    P['guard_true'] = direct({
        'a': T(**{'on-success': [['b', ['true']]]}), 'b': T()})
    P['guard_false'] = direct({
        'a': T(**{'on-success': [['b', ['false']], 'c']}),
        'b': T(), 'c': T()})
    P['guard_var'] = direct(
        {'a': T(**{'on-success': [['b', ['eq', 'v', 1]],
                                  ['c', ['eq', 'v', 0]]]}),
         'b': T(), 'c': T()}, input={'v': 0})
    P['join_guard_nofire'] = direct({
        'a': T(**{'on-success': [['c', ['false']]]}),
        'b': T(**{'on-success': ['c']}),
        'c': T(join='all')})
    P['join_one_guard_nofire'] = direct({
        'a': T(**{'on-success': [['c', ['false']]]}),
        'b': T(**{'on-success': ['c']}),
        'c': T(join='one')})
    P['cmd_fail'] = direct({'a': T(**{'on-success': ['fail']})})
    P['cmd_fail_on_error'] = direct({
        'a': T(**{'on-error': ['fail'], 'on-success': ['b']}), 'b': T()})
    P['cmd_succeed'] = direct({
        'a': T(**{'on-error': ['succeed'], 'on-success': ['b']}), 'b': T()})
    P['cmd_task_then_fail'] = direct({
        'a': T(**{'on-success': ['b', 'fail']}), 'b': T()})
    P['cmd_fail_then_task'] = direct({
        'a': T(**{'on-success': ['fail', 'b']}), 'b': T()})
    P['fork_fail_race'] = direct({
        'a': T(**{'on-success': ['b', 'c']}),
        'b': T(**{'on-success': ['fail']}),
        'c': T(**{'on-success': ['d']}), 'd': T()})
    P['defaults_on_error'] = direct(
        {'a': T(**{'on-success': ['b']}), 'b': T(), 'h': T()},
        **{'task-defaults': {'on-error': ['h']}})
    P['defaults_on_complete'] = direct(
        {'a': T(), 'b': T(**{'on-complete': ['noop']}), 'z': T(
            **{'on-complete': ['noop']})},
        **{'task-defaults': {'on-complete': ['z']}})
    P['publish_seq'] = direct(
        {'a': T(publish={'v': ['lit', 1]}, **{'on-success': ['b']}),
         'b': T(publish={'w': ['var', 'v']})},
        input={'v': 0}, output={'o': ['var', 'w'], 'v': ['var', 'v']})
    P['publish_result'] = direct(
        {'a': T(publish={'r': ['result']}, **{'on-success': ['b']}),
         'b': T()}, output={'o': ['var', 'r']})
    P['publish_on_error'] = direct(
        {'a': T(**{'publish-on-error': {'e': ['lit', 1]},
                   'publish': {'e': ['lit', 0]}, 'on-complete': ['b']}),
         'b': T(publish={'x': ['var', 'e']})}, output={'o': ['var', 'x']})
    P['publish_guard'] = direct(
        {'a': T(publish={'v': ['lit', 1]},
                **{'on-success': [['b', ['eq', 'v', 1]],
                                  ['c', ['eq', 'v', 0]]]}),
         'b': T(), 'c': T()}, input={'v': 0})
    P['publish_join'] = direct(
        {'a': T(publish={'x': ['lit', 1]}, **{'on-success': ['c']}),
         'b': T(publish={'y': ['lit', 2]}, **{'on-success': ['c']}),
         'c': T(join='all', publish={'z': ['var', 'x']})},
        output={'x': ['var', 'x'], 'y': ['var', 'y']})
    P['bad_guard'] = direct({
        'a': T(**{'on-success': [['b', ['bad']]]}), 'b': T()})
    P['bad_publish'] = direct({
        'a': T(publish={'v': ['bad']}, **{'on-success': ['b']}), 'b': T()})
    P['bad_output'] = direct({'a': T()}, output={'o': ['bad']})
    P['bad_publish_fork'] = direct({
        'a': T(**{'on-success': ['b', 'c']}),
        'b': T(publish={'v': ['bad']}),
        'c': T(**{'on-success': ['d']}), 'd': T()})
    P['diamond_err_handler'] = direct({
        'a': T(**{'on-success': ['b', 'c']}),
        'b': T(**{'on-success': ['d'], 'on-error': ['h']}),
        'c': T(**{'on-success': ['d']}),
        'd': T(join='all'), 'h': T()})
    P['fork3_join'] = direct({
        'a': T(**{'on-success': ['d']}),
        'b': T(**{'on-success': ['d']}),
        'c': T(**{'on-success': ['d']}),
        'd': T(join='all')})
    P['nonjoin_two_inbound'] = direct({
        'a': T(**{'on-success': ['c']}),
        'b': T(**{'on-success': ['c']}),
        'c': T()})
    P.update(cycles())
    # two with-items tasks side by side (their keyed completion jobs and
    # locks must not interfere), joined afterwards
    P['items_parallel'] = direct(
        {'a': {'with-items': 'i in <% $.xs %>', 'publish': {'ra': ['result']},
               'on-success': ['c']},
         'b': {'with-items': 'i in <% $.ys %>', 'concurrency': 1,
               'publish': {'rb': ['result']}, 'on-success': ['c']},
         'c': T(join='all')},
        input={'xs': ['a0', 'a1'], 'ys': ['b0', 'b1']},
        output={'ra': ['var', 'ra'], 'rb': ['var', 'rb']})
    return P


def cycles():
    """Bounded cycles: a guarded back edge taken exactly once (the guard
    reads a counter published inside the loop)."""
    P = {}
    P['cyc_seq'] = direct(
        {'s': T(**{'on-success': ['a']}),
         'a': T(publish={'v': ['inc', 'v']}, **{'on-success': ['b']}),
         'b': T(**{'on-success': [['a', ['eq', 'v', 1]]]})},
        input={'v': 0}, output={'v': ['var', 'v']})
    P['cyc_self'] = direct(
        {'s': T(**{'on-success': ['a']}),
         'a': T(publish={'v': ['inc', 'v']},
                **{'on-success': [['a', ['eq', 'v', 1]], 'b']}),
         'b': T()},
        input={'v': 0}, output={'v': ['var', 'v']})
    P['cyc_fork'] = direct(
        {'s': T(**{'on-success': ['a', 'c']}),
         'a': T(publish={'v': ['inc', 'v']}, **{'on-success': ['b']}),
         'b': T(**{'on-success': [['a', ['eq', 'v', 1]]]}),
         'c': T(publish={'w': ['lit', 5]})},
        input={'v': 0})
    P['cyc_on_error'] = direct(
        {'s': T(**{'on-success': ['a']}),
         'a': T(publish={'v': ['inc', 'v']},
                **{'on-success': ['b'], 'on-error': ['h']}),
         'b': T(**{'on-success': [['a', ['eq', 'v', 1]]]}),
         'h': T()},
        input={'v': 0}, output={'v': ['var', 'v']})
    return P


def program_size(prog):
    return len(prog['tasks'])


def enumerate_direct(n, features=('succ', 'err', 'join')):
    """All direct DAG shapes over tasks t1..tn with forward edges only:
    every task ti (i<n) chooses, for on-success and on-error, a subset of
    later tasks of size <= 2; tasks with >= 2 inbound edges are tried as
    join all / join one / plain. Enumerated simplest first."""
    names = ['t%d' % i for i in range(1, n + 1)]
    later = {names[i]: names[i + 1:] for i in range(n)}

    def subsets(xs):
        out = [()]
        for k in (1, 2):
            out.extend(itertools.combinations(xs, k))
        return out

    per_task = []
    for tn in names:
        opts = []
        for s in subsets(later[tn]):
            errs = subsets(later[tn]) if 'err' in features else [()]
            for e in errs:
                if set(s) & set(e):
                    continue
                opts.append((s, e))
        per_task.append(opts)
    progs = []
    for combo in itertools.product(*per_task):
        inbound = collections_counter()
        for (s, e) in combo:
            for x in s + e:
                inbound[x] += 1
        multi = [x for x in names if inbound[x] >= 2]
        join_opts = [('all', 'one', None) if 'join' in features else (None,)
                     for _ in multi]
        for jc in itertools.product(*join_opts):
            tasks = {}
            for tn, (s, e) in zip(names, combo):
                t = {}
                if s:
                    t['on-success'] = list(s)
                if e:
                    t['on-error'] = list(e)
                tasks[tn] = t
            for x, j in zip(multi, jc):
                if j:
                    tasks[x]['join'] = j
            progs.append(direct(tasks))
    progs.sort(key=lambda p: (sum(len(t.get('on-success', [])) +
                                  len(t.get('on-error', []))
                                  for t in p['tasks'].values()),
                              json.dumps(p, sort_keys=True)))
    return progs


def collections_counter():
    import collections
    return collections.Counter()


def clone(p):
    return copy.deepcopy(p)


# ------------------------------------------------------------------ C04 corpus
def join_shapes():
    """Fork/join shapes for C04 (named, simplest first)."""
    P = {}
    C = curated()
    for k in ('diamond', 'diamond_complete', 'join_two_starts', 'join_one',
              'join_2of3', 'join_err_routes', 'join_then',
              'join_onerror_handler', 'nested_join', 'join_guard_nofire',
              'join_one_guard_nofire', 'fork3_join', 'diamond_err_handler'):
        P[k] = C[k]
    for j in ('all', 'one', 2):
        for ev in ('on-success', 'on-error', 'on-complete'):
            P['j%s_%s_3starts' % (j, ev)] = direct({
                'a': T(**{ev: ['d']}), 'b': T(**{ev: ['d']}),
                'c': T(**{ev: ['d']}), 'd': T(join=j)})
        P['j%s_mixed_routes' % j] = direct({
            'a': T(**{'on-success': ['d']}),
            'b': T(**{'on-error': ['d']}),
            'c': T(**{'on-complete': ['d']}), 'd': T(join=j)})
        P['j%s_guards' % j] = direct({
            'a': T(**{'on-success': [['d', ['true']]]}),
            'b': T(**{'on-success': [['d', ['false']]]}),
            'c': T(**{'on-success': ['d']}), 'd': T(join=j)})
        P['j%s_impossible_route' % j] = direct({
            'a': T(**{'on-error': ['x']}),
            'x': T(**{'on-success': ['d']}),
            'b': T(**{'on-success': ['d']}),
            'd': T(join=j)})
        P['j%s_handler' % j] = direct({
            'a': T(**{'on-success': ['d']}),
            'b': T(**{'on-success': ['d']}),
            'd': T(join=j, **{'on-error': ['h']}), 'h': T()})
    P['jall_chain_inbound'] = direct({
        'a': T(**{'on-success': ['b']}), 'b': T(**{'on-success': ['d']}),
        'c': T(**{'on-success': ['d']}), 'd': T(join='all')})
    P['jall_successor'] = direct({
        'a': T(**{'on-success': ['d']}), 'b': T(**{'on-success': ['d']}),
        'd': T(join='all', **{'on-success': ['e']}), 'e': T()})
    P['nested_inner_never_triggered'] = direct({
        'a': T(**{'on-success': [['j1', ['false']]]}),
        'b': T(**{'on-success': [['j1', ['false']]]}),
        'j1': T(join='all', **{'on-success': ['j2']}),
        'c': T(**{'on-success': ['j2']}),
        'j2': T(join='all')})
    P['nested_inner_triggered'] = direct({
        'a': T(**{'on-success': ['j1']}),
        'b': T(**{'on-success': ['j1']}),
        'j1': T(join='all', **{'on-success': ['j2']}),
        'c': T(**{'on-success': ['j2']}),
        'j2': T(join='all')})
    P['two_joins_same_inbound'] = direct({
        'a': T(**{'on-success': ['j1', 'j2']}),
        'b': T(**{'on-success': ['j1', 'j2']}),
        'j1': T(join='all'), 'j2': T(join='all')})
    # an inbound task of the join that is itself fed by two parents, the
    # first of which completes without triggering it: the join has to keep
    # waiting for the route through the second parent
    for tag, jkw in (('onerror', {'on-error': ['e']}),
                     ('oncomplete', {'on-complete': ['e']}),
                     ('bare', {})):
        for guard_on in ('p1', 'p2'):
            other = 'p2' if guard_on == 'p1' else 'p1'
            P['inbound_two_parents_%s_%s' % (tag, guard_on)] = direct({
                'p1': T(**{'on-success': [['x', ['false']]]
                           if guard_on == 'p1' else ['x']}),
                'p2': T(**{'on-success': [['x', ['false']]]
                           if guard_on == 'p2' else ['x']}),
                'x': T(**{'on-success': ['j']}),
                'y': T(**{'on-success': ['j']}),
                'j': T(join='all', **jkw), 'e': T()})
    P['join_defaults_on_error'] = direct(
        {'a': T(**{'on-success': ['d']}), 'b': T(**{'on-success': ['d']}),
         'd': T(join='all'), 'h': T(**{'on-error': ['noop']})},
        **{'task-defaults': {'on-error': ['h']}})
    return P


def reverse_shapes(max_n=3):
    """All requires-DAGs over t1..tn (each task requires a subset of the
    earlier ones) x every target."""
    out = {}
    for n in range(1, max_n + 1):
        names = ['t%d' % i for i in range(1, n + 1)]
        opts = []
        for i, tn in enumerate(names):
            earlier = names[:i]
            subs = [()]
            for k in range(1, len(earlier) + 1):
                subs.extend(itertools.combinations(earlier, k))
            opts.append(subs)
        for combo in itertools.product(*opts):
            tasks = {}
            for tn, reqs in zip(names, combo):
                t = {}
                if reqs:
                    t['requires'] = list(reqs)
                tasks[tn] = t
            tag = '_'.join('%s<%s' % (tn[1:], ''.join(r[1:] for r in reqs))
                           for tn, reqs in zip(names, combo))
            for target in names:
                out['rev%d[%s]->%s' % (n, tag, target)] = (
                    {'type': 'reverse', 'tasks': tasks}, target)
            # the same graph with a requirement coming from task-defaults
            # (every task but the named one requires it in addition)
            if n >= 2:
                for dflt in names[:2]:
                    # must stay acyclic: the default requirement itself
                    # requires nothing
                    if tasks[dflt].get('requires'):
                        continue
                    for target in names:
                        out['rev%d[%s]+td%s->%s' % (n, tag, dflt[1:],
                                                    target)] = (
                            {'type': 'reverse', 'tasks': tasks,
                             'task-defaults': {'requires': [dflt]}}, target)
    return out


# ------------------------------------------------------------------ C05 corpus
def dataflow_shapes():
    P = {}
    out = {'v': ['var', 'v'], 'w': ['var', 'w']}
    deep1 = {'a': {'b': {'c': 1, 'd': 1}, 'e': 1}}
    deep2 = {'a': {'b': {'c': 2, 'd': 2}, 'e': 2}}
    for fresh in ('b', 'c'):
        other = 'c' if fresh == 'b' else 'b'
        P['fresh_%s_vs_inherited' % fresh] = direct({
            'a': T(publish={'v': ['lit', 1]}, **{'on-success': ['b', 'c']}),
            fresh: T(publish={'v': ['lit', 2]}, **{'on-success': ['d']}),
            other: T(**{'on-success': ['d']}),
            'd': T(join='all', publish={'w': ['var', 'v']})},
            input={'v': 0, 'w': 0}, output=out)
        P['fresh_%s_vs_input' % fresh] = direct({
            'a': T(**{'on-success': ['b', 'c']}),
            fresh: T(publish={'v': ['lit', 2]}, **{'on-success': ['d']}),
            other: T(**{'on-success': ['d']}),
            'd': T(join='all', publish={'w': ['var', 'v']})},
            input={'v': 0, 'w': 0}, output=out)
        P['deep_fresh_%s' % fresh] = direct({
            'a': T(publish={'v': ['lit', deep1]},
                   **{'on-success': ['b', 'c']}),
            fresh: T(publish={'v': ['lit', deep2]}, **{'on-success': ['d']}),
            other: T(**{'on-success': ['d']}),
            'd': T(join='all', publish={'w': ['var', 'v']})},
            input={'w': 0}, output=out)
        P['twice_fresh_%s' % fresh] = direct({
            'a': T(publish={'v': ['lit', 1]}, **{'on-success': ['b', 'c']}),
            fresh: T(publish={'v': ['lit', 2]}, **{'on-success': ['f']}),
            'f': T(publish={'v': ['inc', 'v']}, **{'on-success': ['d']}),
            other: T(**{'on-success': ['d']}),
            'd': T(join='all', publish={'w': ['var', 'v']})},
            input={'v': 0, 'w': 0}, output=out)
        P['on_error_fresh_%s' % fresh] = direct({
            'a': T(publish={'v': ['lit', 1]}, **{'on-success': ['b', 'c']}),
            fresh: T(**{'publish-on-error': {'v': ['lit', 3]},
                        'publish': {'v': ['lit', 2]},
                        'on-complete': ['d']}),
            other: T(**{'on-complete': ['d']}),
            'd': T(join='all', publish={'w': ['var', 'v']})},
            input={'v': 0, 'w': 0}, output=out)
        P['end_tasks_%s' % fresh] = direct({
            'a': T(publish={'v': ['lit', 1]}, **{'on-success': ['b', 'c']}),
            fresh: T(publish={'v': ['lit', 2]}),
            other: T(publish={'w': ['var', 'v']})},
            input={'v': 0, 'w': 0}, output=out)
        P['join_one_%s' % fresh] = direct({
            'a': T(publish={'v': ['lit', 1]}, **{'on-success': [fresh]}),
            fresh: T(publish={'v': ['lit', 2]}, **{'on-success': ['d']}),
            'd': T(join='all', publish={'w': ['var', 'v']}),
            other: T(**{'on-success': ['d']})},
            input={'v': 0, 'w': 0}, output=out)
    # value catalogue: what the re-publishing branch writes over what the
    # other branch merely inherited (null, falsy and container values, keys
    # that disappear, nulls inside containers)
    pairs = [
        ('null', 1, None), ('zero', 1, 0), ('empty_str', 1, ''),
        ('false', 1, False), ('empty_list', [1], []), ('empty_dict',
                                                       {'x': 1}, {}),
        ('from_null', None, 1), ('null_leaf', {'x': 1}, {'x': None}),
        ('null_deep', {'x': {'y': 1}}, {'x': {'y': None}}),
        ('dict_to_null', {'x': 1}, None), ('dict_to_scalar', {'x': 1}, 5),
        ('scalar_to_dict', 5, {'x': 1}),
        ('key_dropped', {'x': 1, 'y': 1}, {'x': 2}),
        ('key_added_null', {'x': 1}, {'x': 1, 'z': None}),
        ('list_shorter', [1, 2, 3], [9]),
    ]
    for fresh in ('b', 'c'):
        other = 'c' if fresh == 'b' else 'b'
        for pname, old, new in pairs:
            P['val_%s_%s' % (pname, fresh)] = direct({
                'a': T(publish={'v': ['lit', old]},
                       **{'on-success': ['b', 'c']}),
                fresh: T(publish={'v': ['lit', new]},
                         **{'on-success': ['d']}),
                other: T(**{'on-success': ['d']}),
                'd': T(join='all', publish={'w': ['var', 'v']})},
                input={'w': 0}, output=out)
    # an inbound task of a (partial) join that completes, publishes, but
    # routes elsewhere (its guarded edge into the join does not fire): the
    # join must not see what it published
    for fresh in ('b', 'c'):
        other = 'c' if fresh == 'b' else 'b'
        for j in ('one', 1):
            P['nonrouted_%s_join_%s' % (fresh, j)] = direct({
                'a': T(publish={'v': ['lit', 1]},
                       **{'on-success': ['b', 'c']}),
                fresh: T(publish={'v': ['lit', 2], 'x': ['lit', 7]},
                         **{'on-success': [['d', ['false']], 'e']}),
                other: T(**{'on-success': ['d']}),
                'd': T(join=j, publish={'w': ['var', 'v']}),
                'e': T()},
                input={'w': 0, 'x': 0}, output=out)
        P['nonrouted_%s_on_error' % fresh] = direct({
            'a': T(publish={'v': ['lit', 1]}, **{'on-success': ['b', 'c']}),
            fresh: T(publish={'v': ['lit', 2]},
                     **{'publish-on-error': {'v': ['lit', 3]},
                        'on-error': ['d'], 'on-success': ['e']}),
            other: T(**{'on-success': ['d']}),
            'd': T(join='one', publish={'w': ['var', 'v']}),
            'e': T()},
            input={'w': 0}, output=out)
    # transition-level publish: branch variables (win over the task-level
    # ones) and global variables (visible to tasks that do not descend from
    # the publisher once they are published)
    for fresh in ('b', 'c'):
        other = 'c' if fresh == 'b' else 'b'
        P['clause_branch_%s' % fresh] = direct({
            'a': T(publish={'v': ['lit', 1]}, **{'on-success': ['b', 'c']}),
            fresh: T(publish={'v': ['lit', 2], 'u': ['lit', 2]},
                     **{'on-success-publish': {'branch': {'v': ['lit', 3]}},
                        'on-success': ['d']}),
            other: T(**{'on-success': ['d']}),
            'd': T(join='all', publish={'w': ['var', 'v']})},
            input={'w': 0, 'u': 0}, output=out)
        P['clause_complete_vs_state_%s' % fresh] = direct({
            'a': T(publish={'v': ['lit', 1]}, **{'on-success': ['b', 'c']}),
            fresh: T(**{'on-complete-publish': {'branch': {'v': ['lit', 4],
                                                           'x': ['lit', 4]}},
                        'on-success-publish': {'branch': {'v': ['lit', 5]}},
                        'on-error-publish': {'branch': {'v': ['lit', 6]}},
                        'on-complete': ['d']}),
            other: T(**{'on-complete': ['d']}),
            'd': T(join='all', publish={'w': ['var', 'v']})},
            input={'w': 0, 'x': 0}, output=out)
    P['clause_global_seq'] = direct({
        'a': T(**{'on-success-publish': {'global': {'g': ['lit', 7]},
                                         'branch': {'v': ['lit', 1]}},
                  'on-success': ['b']}),
        'b': T(publish={'w': ['var', 'g']})},
        input={'w': 0, 'v': 0, 'g': 0},
        output={'g': ['var', 'g'], 'w': ['var', 'w'], 'v': ['var', 'v']})
    P['clause_global_overrides_input'] = direct({
        'a': T(**{'on-error-publish': {'global': {'g': ['lit', 8]}},
                  'on-success-publish': {'global': {'g': ['lit', 9]}},
                  'on-complete': ['b']}),
        'b': T(publish={'w': ['var', 'g']})},
        input={'w': 0, 'g': 0}, output={'g': ['var', 'g'], 'w': ['var', 'w']})
    P['chain_inc'] = direct({
        'a': T(publish={'v': ['lit', 1]}, **{'on-success': ['b']}),
        'b': T(publish={'v': ['inc', 'v']}, **{'on-success': ['c']}),
        'c': T(publish={'w': ['var', 'v']})},
        input={'v': 0, 'w': 0}, output=out)
    P['disjoint_vars'] = direct({
        'a': T(**{'on-success': ['b', 'c']}),
        'b': T(publish={'x': ['lit', 1]}, **{'on-success': ['d']}),
        'c': T(publish={'y': ['lit', 2]}, **{'on-success': ['d']}),
        'd': T(join='all', publish={'z': ['var', 'x'], 'w': ['var', 'y']})},
        output={'x': ['var', 'x'], 'y': ['var', 'y'], 'z': ['var', 'z']})
    P['nested_disjoint_leaves'] = direct({
        'a': T(publish={'v': ['lit', {'p': {'x': 0, 'y': 0}}]},
               **{'on-success': ['b', 'c']}),
        'b': T(publish={'v': ['lit', {'p': {'x': 1, 'y': 0}}]},
               **{'on-success': ['d']}),
        'c': T(**{'on-success': ['d']}),
        'd': T(join='all', publish={'w': ['var', 'v']})},
        output=out)
    P['result_publish'] = direct({
        'a': T(publish={'v': ['result']}, **{'on-success': ['b', 'c']}),
        'b': T(publish={'v': ['result']}, **{'on-success': ['d']}),
        'c': T(**{'on-success': ['d']}),
        'd': T(join='all', publish={'w': ['var', 'v']})},
        input={'w': 0}, output=out)
    P['three_branches'] = direct({
        'a': T(publish={'v': ['lit', 1]}, **{'on-success': ['b', 'c', 'e']}),
        'b': T(**{'on-success': ['d']}),
        'c': T(publish={'v': ['lit', 2]}, **{'on-success': ['d']}),
        'e': T(**{'on-success': ['d']}),
        'd': T(join='all', publish={'w': ['var', 'v']})},
        input={'v': 0, 'w': 0}, output=out)
    P['guard_on_published'] = direct({
        'a': T(publish={'v': ['lit', 1]}, **{'on-success': ['b']}),
        'b': T(publish={'v': ['lit', 2]},
               **{'on-success': [['c', ['eq', 'v', 2]],
                                 ['d', ['eq', 'v', 1]]]}),
        'c': T(publish={'w': ['var', 'v']}), 'd': T()},
        input={'v': 0, 'w': 0}, output=out)
    return P


# ------------------------------------------------------------------ pairs
def feature_pairs():
    """Every pair of language features applied to the first task of a small
    skeleton  a -> b (on-success), a -> c (on-error), b/c -> d.
    -> {name: (prog, [result assignments])}"""
    feats = {
        'publish': lambda p: p['tasks']['a'].update(
            publish={'v': ['lit', 1]}),
        'publish_err': lambda p: p['tasks']['a'].update(
            {'publish-on-error': {'v': ['lit', 2]}}),
        'guard_false': lambda p: p['tasks']['a'].update(
            {'on-success': [['b', ['false']], 'd']}),
        'guard_var': lambda p: p['tasks']['a'].update(
            {'on-success': [['b', ['eq', 'v', 1]], ['d', ['eq', 'v', 0]]]}),
        'cmd_fail': lambda p: p['tasks']['a'].update(
            {'on-error': ['c', 'fail']}),
        'cmd_succeed': lambda p: p['tasks']['a'].update(
            {'on-success': ['succeed']}),
        'cmd_noop': lambda p: p['tasks']['a'].update(
            {'on-error': ['noop']}),
        'retry': lambda p: p['tasks']['a'].update(
            retry={'count': 1, 'delay': 0}),
        'items': lambda p: (p['tasks']['a'].update(
            {'with-items': 'i in <% $.xs %>'}),
            p.setdefault('input', {}).update(xs=['a', 'a2'])),
        'subwf': lambda p: (p['tasks']['a'].update(workflow='sub'),
                            p.update(subs={'sub': direct(
                                {'a': T(key='a')})})),
        'join_d': lambda p: p['tasks']['d'].update(join='all'),
        'defaults_err': lambda p: p.update(
            {'task-defaults': {'on-error': ['c']}}),
        'complete': lambda p: p['tasks']['a'].update(
            {'on-complete': ['d']}),
        'fail_on': lambda p: p['tasks']['a'].update(
            {'fail-on': ['eq', 'v', 0]}),
    }
    incompatible = {frozenset(('items', 'subwf')),
                    frozenset(('cmd_succeed', 'guard_false')),
                    frozenset(('cmd_succeed', 'guard_var')),
                    frozenset(('cmd_fail', 'cmd_noop')),
                    frozenset(('guard_false', 'guard_var')),
                    # (task-defaults on-error also applies to c and d: with
                    # a join on d this is an unbounded cycle d -> c -> d)
                    frozenset(('defaults_err', 'join_d'))}
    out = {}
    names = sorted(feats)
    for f1, f2 in itertools.combinations(names, 2):
        if frozenset((f1, f2)) in incompatible:
            continue
        p = direct({'a': T(**{'on-success': ['b'], 'on-error': ['c']}),
                    'b': T(**{'on-success': ['d']}),
                    'c': T(**{'on-success': ['d']}),
                    'd': T()},
                   input={'v': 0}, output={'v': ['var', 'v']})
        feats[f1](p)
        feats[f2](p)
        keys = ['a', 'b', 'c', 'd']
        if 'items' in (f1, f2):
            keys = ['a', 'a2', 'b', 'c', 'd']
        assigns = [{k: ['S'] for k in keys},
                   {k: (['E'] if k == 'a' else ['S']) for k in keys}]
        if 'retry' in (f1, f2):
            assigns.append({k: (['E', 'S'] if k == 'a' else ['S'])
                            for k in keys})
        out['pair_%s_%s' % (f1, f2)] = (p, assigns)
    return out
