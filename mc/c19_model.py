"""C19 - reference model and input catalogue for the egress policy.

Independent of the implementation: own URL splitter (RFC 3986 authority
rules), own BSD `inet_aton` parser for the numeric IPv4 forms, own CIDR
membership on integers.  `ipaddress` is used only to turn an IPv6 text into
an integer.  Nothing here imports mistral or urllib.

Verdicts
  REFUSE    the property demands that the URL is refused
  ALLOW     nothing in the property demands refusal and the case is
            clear-cut (used only for the informational over-refusal count)
  DONTCARE  the property is silent (no host, malformed port, unreachable
            zone, unresolvable name ...): nothing is demanded
Only REFUSE is an oracle.
"""
import ipaddress
import re
import unicodedata

REFUSE, ALLOW, DONTCARE = 'REFUSE', 'ALLOW', 'DONTCARE'

# The machine the resolver seam models: interface names / indexes that a
# scoped IPv6 literal may name (`lo` has index 1 on every Linux).
ZONES = ('lo', '1')

DEFAULT_DENIED = ['127.0.0.0/8', '::1/128', '169.254.0.0/16', 'fe80::/10']

_DEC = frozenset('0123456789')
_OCT = frozenset('01234567')
_HEX = frozenset('0123456789abcdefABCDEF')


# ---------------------------------------------------------------- numeric v4
def aton(text):
    """BSD/glibc inet_aton: 1-4 parts, each decimal / 0octal / 0xhex, the
    last part fills the remaining bytes.  Returns the 32-bit value or None."""
    if not text or len(text) > 80:
        return None
    parts = text.split('.')
    if len(parts) > 4:
        return None
    vals = []
    for p in parts:
        if not p:
            return None
        if p[:2] in ('0x', '0X'):
            digs, base, ok = p[2:], 16, _HEX
        elif p[0] == '0' and len(p) > 1:
            digs, base, ok = p[1:], 8, _OCT
        else:
            digs, base, ok = p, 10, _DEC
        if not digs:
            return None
        for ch in digs:
            if ch not in ok:
                return None
        vals.append(int(digs, base))
    n = len(vals)
    for v in vals[:-1]:
        if v > 255:
            return None
    if vals[-1] >= 1 << (8 * (5 - n)):
        return None
    out = vals[-1]
    for i, v in enumerate(vals[:-1]):
        out |= v << (8 * (3 - i))
    return out


def v4str(n):
    return '%d.%d.%d.%d' % (n >> 24 & 255, n >> 16 & 255, n >> 8 & 255, n & 255)


# -------------------------------------------------------------------- URL
_SCHEME = re.compile(r'^([A-Za-z][A-Za-z0-9+.\-]*):')


def split_url(url):
    """-> (scheme or None, host or None, bracketed, port_text or None,
    malformed).  Authority = text after `//` up to the first `/?#`; userinfo
    ends at the LAST `@`; an IP-literal is `[...]`."""
    m = _SCHEME.match(url)
    scheme = m.group(1) if m else None
    rest = url[m.end():] if m else url
    if not rest.startswith('//'):
        return scheme, None, False, None, False
    auth = rest[2:]
    cut = len(auth)
    for ch in '/?#':
        i = auth.find(ch)
        if i >= 0:
            cut = min(cut, i)
    auth = auth[:cut]
    hostport = auth.rsplit('@', 1)[-1]
    malformed = False
    if hostport.startswith('['):
        end = hostport.find(']')
        if end < 0:
            return scheme, None, True, None, True
        host, tail, bracketed = hostport[1:end], hostport[end + 1:], True
    else:
        host, sep, tail = hostport.partition(':')
        tail = sep + tail
        bracketed = False
    port = None
    if tail:
        if tail.startswith(':'):
            port = tail[1:]
            if port and (not all(c in _DEC for c in port)
                         or int(port) > 65535):
                malformed = True
        else:
            malformed = True
    return scheme, (host or None), bracketed, port, malformed


def idna_map(host):
    """Hosts with non-ASCII characters: the compatibility mapping every
    IDNA-aware client applies (fullwidth digits, ideographic full stops)."""
    if host.isascii():
        return host
    h = unicodedata.normalize('NFKC', host)
    for dot in u'。．｡':
        h = h.replace(dot, '.')
    return h


# ------------------------------------------------------------- networks
def parse_cidr(text):
    """-> (version, int network, prefixlen) or None for an entry that does
    not denote a network.  Host bits are masked off."""
    text = text.strip()
    addr, sep, plen = text.partition('/')
    try:
        if ':' in addr:
            ver, bits = 6, 128
            val = int(ipaddress.IPv6Address(addr))
        else:
            ver, bits = 4, 32
            q = addr.split('.')
            if len(q) != 4 or not all(x and all(c in _DEC for c in x)
                                      and int(x) < 256 for x in q):
                return None
            val = aton('.'.join(str(int(x)) for x in q))
            if val is None:
                return None
        if sep:
            if not plen or not all(c in _DEC for c in plen):
                return None
            pl = int(plen)
            if pl > bits:
                return None
        else:
            pl = bits
    except ValueError:
        return None
    shift = bits - pl
    return ver, (val >> shift) << shift, pl


def in_net(ver, val, net):
    nver, nval, pl = net
    if ver != nver:
        return False
    shift = (32 if ver == 4 else 128) - pl
    return (val >> shift) == (nval >> shift)


def addr_value(text):
    """address text as the resolver returns it -> (version, int)."""
    text = text.partition('%')[0]
    if ':' in text:
        return 6, int(ipaddress.IPv6Address(text))
    return 4, aton(text)


def show(ver, val):
    return v4str(val) if ver == 4 else str(ipaddress.IPv6Address(val))


MAPPED_PREFIX = 0xffff << 32


def offending(addrs, denied):
    """addrs: [(ver, int)], denied: parsed cidrs -> list of
    (address text, cidr index, via) with via in {'direct', 'v4mapped'}."""
    out = []
    for ver, val in addrs:
        cands = [(ver, val, 'direct')]
        if ver == 6 and (val >> 32) == 0xffff:
            cands.append((4, val & 0xffffffff, 'v4mapped'))
        for cver, cval, via in cands:
            for i, net in enumerate(denied):
                if net is not None and in_net(cver, cval, net):
                    out.append((show(ver, val), i, via))
    return out


# ---------------------------------------------------------------- config
class Config(object):
    def __init__(self, name, denied, allowed):
        self.name = name
        self.denied = list(denied)
        self.allowed = list(allowed)
        self.nets = [parse_cidr(c) for c in self.denied]
        self.listed = set(a.lower().rstrip('.') for a in self.allowed)

    def doc(self):
        return {'name': self.name, 'denied_cidrs': self.denied,
                'allowed_hosts': self.allowed}


# ---------------------------------------------------------------- verdict
def host_addresses(host, bracketed, answer):
    """-> (kind, addrs, note).  kind: literal | literal-zone |
    name | none.  addrs [(ver,int)] the host denotes (literal)
    or resolves to (name, taken from `answer`); None = unknown/unreachable."""
    if host is None:
        return 'none', None, 'no host'
    h = idna_map(host)
    if bracketed or ':' in h:
        addr, pct, zone = h.partition('%')
        try:
            val = int(ipaddress.IPv6Address(addr))
        except ValueError:
            return 'none', None, 'not an IPv6 literal'
        if pct:
            # The zone is read the way the platform and the installed HTTP
            # client read it: literally.  (RFC 6874 writes the zone of a URL
            # as "%25zone"; neither getaddrinfo nor requests >= 2.32 undo
            # that, so "[fe80::1%25lo]" names the non-existent zone "25lo".
            # The RFC reading is reported separately, see rfc6874_target.)
            linklocal = (val >> 118) == (0xfe80 >> 6)
            if zone not in ZONES or not linklocal:
                return ('literal-zone', None,
                        'zone not usable on the modelled machine')
            return 'literal-zone', [(6, val)], ''
        return 'literal', [(6, val)], ''
    n = aton(h)
    if n is not None:
        return 'literal', [(4, n)], ''
    # "a.b.c.d." is NOT numeric for inet_aton/getaddrinfo: the platform and
    # the HTTP client treat it as a name, so it denotes whatever the resolver
    # answers for it (measured: urllib3 hands the dotted text to getaddrinfo)
    if answer is None or answer == 'gaierror':
        return 'name', None, 'name does not resolve'
    return 'name', [addr_value(a) for a in answer], ''


def rfc6874_target(host):
    """[(ver,int)] if the host is a link-local literal whose zone, read per
    RFC 6874 ("%25" + zone), exists on the modelled machine; else None."""
    if host is None or '%25' not in host:
        return None
    addr, _, zone = host.partition('%25')
    try:
        val = int(ipaddress.IPv6Address(addr))
    except ValueError:
        return None
    if zone in ZONES and (val >> 118) == (0xfe80 >> 6):
        return [(6, val)]
    return None


def expect(url, cfg, answer):
    """The reference classification of one case."""
    scheme, host, bracketed, port, malformed = split_url(url)
    reasons = []
    if scheme is None or scheme.lower() not in ('http', 'https'):
        reasons.append('scheme')
    lhost = host.lower() if host is not None else None
    if cfg.listed:
        if lhost is None or lhost.rstrip('.') not in cfg.listed:
            reasons.append('allowlist')
    kind, addrs, note = host_addresses(lhost, bracketed, answer)
    off = offending(addrs, cfg.nets) if addrs else []
    detail = ''
    if off:
        vias = sorted(set(v for _, _, v in off))
        via = 'v4mapped' if vias == ['v4mapped'] else 'direct'
        where = 'resolved' if kind == 'name' else kind
        reasons.append('address:%s-%s' % (where, via))
        detail = ', '.join('%s in %s%s' % (
            a, cfg.denied[i], ' (IPv4-mapped, unwrapped)'
            if v == 'v4mapped' else '') for a, i, v in off[:4])
    if reasons:
        verdict = REFUSE
    elif (host is None or malformed or addrs is None
          or not host.isascii()):
        verdict = DONTCARE
    else:
        verdict = ALLOW
    alt = rfc6874_target(lhost) if bracketed else None
    return {'verdict': verdict, 'reasons': reasons,
            'rfc6874_denied': bool(alt and offending(alt, cfg.nets)),
            'cls': reasons[0]
            if reasons else '', 'detail': detail, 'kind': kind,
            'host': lhost, 'scheme': scheme, 'port': port,
            'addrs': None if addrs is None else [show(*a) for a in addrs]}


# ============================================================= catalogue
def _alt_case(s):
    out, up = [], True
    for ch in s:
        if ch.isalpha():
            out.append(ch.upper() if up else ch.lower())
            up = not up
        else:
            out.append(ch)
    return ''.join(out)


def v4_forms(addr, tier):
    a, b, c, d = [int(x) for x in addr.split('.')]
    n = a << 24 | b << 16 | c << 8 | d
    hexg = '%x:%x' % (n >> 16, n & 0xffff)
    f = [
        ('dotted', addr),
        ('decimal', str(n)),
        ('hex', '0x%08x' % n),
        ('hex-upper', '0X%08X' % n),
        ('octal', '0%o' % n),
        ('dotted-octal', '.'.join('0%o' % x for x in (a, b, c, d))),
        ('dotted-hex', '.'.join('0x%x' % x for x in (a, b, c, d))),
        ('mixed-radix', '0x%X.%d.0%o.%d' % (a, b, c, d)),
        ('short2', '%d.%d' % (a, b << 16 | c << 8 | d)),
        ('short3', '%d.%d.%d' % (a, b, c << 8 | d)),
        ('trailing-dot', addr + '.'),
        ('mapped-dotted', '[::ffff:%s]' % addr),
        ('mapped-hex', '[::ffff:%s]' % hexg),
        ('mapped-full', '[0:0:0:0:0:ffff:%s]' % hexg),
        ('mapped-upper', '[::FFFF:%s]' % hexg.upper()),
    ]
    if tier == 'thorough':
        f += [
            ('hex-mixedcase', '0x' + _alt_case('%08x' % n)),
            ('dotted-hex-upper', '.'.join('0X%X' % x for x in (a, b, c, d))),
            ('short2-hex', '0x%x.0x%x' % (a, b << 16 | c << 8 | d)),
            ('octal-padded', '0000%o.%d.%d.%d' % (a, b, c, d)),
            ('trailing-dot-decimal', '%d.' % n),
            ('mapped-padded', '[0000:0000:0000:0000:0000:ffff:%s]' % addr),
            ('v4-compatible', '[::%s]' % addr),
            ('fullwidth', u''.join(
                unichr_fw(ch) for ch in str(a)) + '.%d.%d.%d' % (b, c, d)),
            ('ideographic-dot', addr.replace('.', u'。')),
        ]
    return f


def unichr_fw(ch):
    return chr(ord(ch) - ord('0') + 0xff10)


def v6_forms(addr, tier):
    full = ipaddress.IPv6Address(addr).exploded
    groups = ':'.join('%x' % int(g, 16) for g in full.split(':'))
    f = [
        ('v6', '[%s]' % addr),
        ('v6-full', '[%s]' % groups),
        ('v6-upper', '[%s]' % addr.upper()),
    ]
    if tier == 'thorough':
        f += [('v6-padded', '[%s]' % full)]
    return f


def zone_forms(tier):
    f = [
        ('zone', '[fe80::1%lo]'),
        ('zone-rfc6874', '[fe80::1%25lo]'),
        ('zone-index', '[fe80::1%1]'),
        ('zone-unknown', '[fe80::1%nosuch0]'),
    ]
    if tier == 'thorough':
        f += [
            ('zone-upper', '[FE80::1%lo]'),
            ('zone-nonlinklocal', '[2001:db8::1%lo]'),
            ('zone-rfc6874-unknown', '[fe80::1%25nosuch0]'),
        ]
    return f


V4 = {
    'quick': ['127.0.0.1', '169.254.169.254', '10.0.0.5', '93.184.216.34',
              '128.0.0.1'],
    'thorough': ['127.0.0.1', '127.255.255.254', '169.254.169.254',
                 '169.254.0.1', '10.0.0.5', '172.31.255.254', '192.168.1.1',
                 '93.184.216.34', '128.0.0.1', '126.255.255.255',
                 '0.0.0.0'],
}
V6 = {
    'quick': ['::1', 'fe80::1', '2001:db8::1', 'fd00::1'],
    'thorough': ['::1', 'fe80::1', 'febf::ffff', 'fec0::1', '2001:db8::1',
                 'fd00::1', '::'],
}
NAMES = {
    'quick': ['example.com', 'EXAMPLE.com', 'internal.example', 'localhost',
              'example.com.'],
    'thorough': ['example.com', 'EXAMPLE.com', 'internal.example',
                 'localhost', 'example.com.', '127.0.0.1.nip.io',
                 'xn--bcher-kva.example'],
}
# what a name may resolve to
ATOMS = {
    'quick': ['93.184.216.34', '127.0.0.1', '::1', '::ffff:127.0.0.1',
              '169.254.169.254'],
    'thorough': ['93.184.216.34', '127.0.0.1', '::1', '::ffff:127.0.0.1',
                 '169.254.169.254', '10.0.0.5', '::ffff:169.254.169.254',
                 'fe80::1'],
}
SCHEMES = {
    'quick': ['http://', 'https://', 'HTTP://', 'ftp://', 'file://',
              'gopher://', '//', ''],
    'thorough': ['http://', 'https://', 'HTTP://', 'hTTps://', 'ftp://',
                 'file://', 'gopher://', 'httpx://', 'ws://', 'http+unix://',
                 '//', ''],
}
USERINFO = {
    'quick': ['', 'u:p@', 'a@b@', '93.184.216.34@'],
    'thorough': ['', 'u:p@', 'a@b@', '93.184.216.34@', 'u@',
                 '127.0.0.1:80@'],
}
PORTS = {
    'quick': ['', ':80', ':0', ':65535'],
    'thorough': ['', ':80', ':0', ':65535', ':', ':65536'],
}
PATHS = {
    'quick': ['', '/latest/meta-data?u=a@b#c'],
    'thorough': ['', '/latest/meta-data?u=a@b#c', '?q=@10.0.0.5'],
}
SPECIALS = ['', 'http://', 'http:///x', 'http:/127.0.0.1/', 'http:127.0.0.1',
            'file:///etc/passwd', 'gopher://127.0.0.1:70/_x',
            'http://@/', 'http://:80/', 'https://[]/', 'http://[::1/x']

_WIDE = DEFAULT_DENIED + ['10.0.0.0/8', '172.16.0.0/12', '192.168.0.0/16',
                          'fc00::/7']
_ALLOW = ['example.com', '93.184.216.34', 'internal.example', '127.0.0.1',
          '::ffff:127.0.0.1']


def configs(tier):
    c = [
        Config('default', DEFAULT_DENIED, []),
        Config('widened', _WIDE, []),
        Config('emptied', [], []),
        Config('allowlist', DEFAULT_DENIED, _ALLOW),
        Config('allowlist+emptied', [], _ALLOW),
        Config('sloppy', ['127.0.0.1/8', 'bogus', '169.254.169.254', '::1'],
               []),
    ]
    if tier == 'thorough':
        c += [
            Config('v6-only', ['::1/128', 'fe80::/10'], []),
            Config('all-v4', ['0.0.0.0/0'], []),
            Config('mapped-range', DEFAULT_DENIED + ['::ffff:0:0/96'], []),
            Config('allowlist-upper', DEFAULT_DENIED, ['Example.COM']),
        ]
    return c


def answers(tier):
    """Resolver answers for a name: gaierror, every single atom, every
    ORDERED pair of distinct atoms (order matters to an implementation that
    looks only at the first answer); thorough adds the empty answer."""
    at = ATOMS[tier]
    out = ['gaierror'] + [[a] for a in at]
    out += [[a, b] for a in at for b in at if a != b]
    if tier == 'thorough':
        out.append([])
    return out


def host_cases(tier):
    """-> list of (form, host text, answer).  answer is None for hosts the
    platform parses numerically (the resolver is not consulted)."""
    out, seen = [], set()

    def add(form, host, answer):
        k = (host, repr(answer))
        if k not in seen:
            seen.add(k)
            out.append((form, host, answer))

    for addr in V4[tier]:
        for form, host in v4_forms(addr, tier):
            if form.startswith('trailing-dot'):
                # "a.b.c.d." is not numeric for getaddrinfo: real DNS says
                # NXDOMAIN; a resolver that drops the dot gives the address
                add(form, host, 'gaierror')
                add(form, host, [addr])
            else:
                add(form, host, None)
    for addr in V6[tier]:
        for form, host in v6_forms(addr, tier):
            add(form, host, None)
    for form, host in zone_forms(tier):
        add(form, host, None)
    for name in NAMES[tier]:
        for ans in answers(tier):
            add('name', name, ans)
    return out
