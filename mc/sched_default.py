"""Runs the real DefaultScheduler (dispatcher loop, job-store checker loop,
pool jobs) as controlled activities: its module-level `threading`,
`futures`, `time` and `random` are replaced by greenlet-aware shims."""
import collections
import json

from mc import env
from mistral.scheduler import default_scheduler as ds
from mistral.scheduler import base as sched_base


class GCond(object):
    """threading.Condition replacement (single OS thread, no real lock)."""

    def __init__(self):
        self.waiters = []
        self.owner = None

    def __enter__(self):
        return self

    def __exit__(self, *a):
        return False

    def wait(self, timeout=None):
        a = env.cur_act()
        if a is None:
            raise env.HarnessError('cond.wait outside activity')
        deadline = None
        if timeout is not None:
            # virtual clock has 1 s resolution; round up
            t = int(timeout)
            if t < timeout:
                t += 1
            deadline = env.W.clock + t
        w = env.Wait('cond', deadline)
        self.waiters.append(w)
        a.blocked_on = w
        a.dirty = False
        env.yield_point('wait')
        if w in self.waiters:
            self.waiters.remove(w)
        return w.notified

    def notify(self, n=1):
        for w in self.waiters[:n]:
            w.notified = True
        del self.waiters[:n]

    def notify_all(self):
        self.notify(len(self.waiters))


class GThread(object):
    def __init__(self, target=None, name=None, args=(), kwargs=None):
        self.target = target
        self.daemon = True
        self.args = args
        self.act = None

    def start(self):
        inst = getattr(self.target, '__self__', None)
        nm = getattr(inst, '_verif_name', 'S?')
        self.act = env.Activity('schedloop', '%s.%s' % (
            nm, self.target.__name__), lambda: self.target(*self.args))
        self.act.owner = nm
        env.W.acts.append(self.act)

    def join(self, timeout=None):
        pass


class _Threading(object):
    Thread = GThread
    Condition = GCond
    RLock = GCond
    Lock = GCond


class GExecutor(object):
    def __init__(self, max_workers=None):
        self.owner = None
        self.down = False

    def submit(self, fn, *args):
        if self.down:
            raise RuntimeError('cannot schedule new futures after shutdown')
        inst = getattr(fn, '__self__', None)
        nm = getattr(inst, '_verif_name', 'S?')
        jid = getattr(args[0], 'id', '') if args else ''
        if args and getattr(inst, '_verif_by_content', False):
            # engine scenarios: a job is identified by what it does (its id
            # disappears from the tables when the row is deleted)
            j = args[0]
            jid = '%s|%s|%s' % (getattr(j, 'func_name', ''),
                                getattr(j, 'key', ''),
                                json.dumps(getattr(j, 'func_args', None),
                                           sort_keys=True, default=str))
        a = env.Activity('job', '%s.%s(%s)' % (nm, fn.__name__, jid),
                         lambda: fn(*args))
        a.owner = nm
        env.W.acts.append(a)

    def shutdown(self, wait=False):
        self.down = True


class _Futures(object):
    ThreadPoolExecutor = GExecutor


class _Time(object):
    @staticmethod
    def sleep(secs):
        a = env.cur_act()
        if a is None:
            return
        t = int(secs)
        if t < secs:
            t += 1
        a.blocked_on = ('time', env.W.clock + max(t, 1))
        a.dirty = False
        env.yield_point('sleep')

    @staticmethod
    def time():
        return env.W.clock


class _Rnd(object):
    def randint(self, a, b):
        return a


class _Random(object):
    Random = _Rnd


ds.threading = _Threading
ds.futures = _Futures
ds.time = _Time
ds.random = _Random


class _NoThread(object):
    daemon = True

    def start(self):
        pass

    def join(self, timeout=None):
        pass


class DefaultDriver(object):
    """One scheduler instance (a separate engine process in production)."""

    def __init__(self, name):
        self.name = name
        self.sched = None
        self.crashed = False

    def create(self, store_checker=True):
        self.sched = ds.DefaultScheduler.__new__(ds.DefaultScheduler)
        self.sched._verif_name = self.name
        ds.DefaultScheduler.__init__(self.sched, env.CONF.scheduler)
        if not store_checker:
            # engine scenarios: the periodic job-store poll (the redundancy
            # path explored by C13) is not started; jobs run through the
            # in-memory dispatcher and the pool, step by step
            self.sched._job_store_checker_thread = _NoThread()
            self.sched._verif_by_content = True
        self.sched.start()

    def mem_state(self):
        """In-memory part of the scheduler state (heap and job map), for the
        canonical state of engine scenarios."""
        s = self.sched
        out = []
        for jid, j in s.in_memory_jobs.items():
            out.append([j.func_name, j.key,
                        json.dumps(j.func_args, sort_keys=True, default=str),
                        env._rel_time(j.execute_at),
                        env._rel_time(j.captured_at),
                        any(h[2] is j for h in s._heap)])
        out.sort(key=lambda x: json.dumps(x, default=str))
        return [self.name, self.crashed, out, len(s._heap)]

    # interface used by env.enabled_choices / next_clock_event
    def poll_enabled(self):
        return False

    def next_time(self):
        return None

    def crash(self):
        """The process dies: none of its threads ever runs again."""
        self.crashed = True
        for a in list(env.W.acts):
            if getattr(a, 'owner', None) == self.name:
                a.done = True
                a.dead = True
        env.W.acts = [a for a in env.W.acts if not a.done]


def use_default_scheduler(n=1, store_checker=True):
    del env.SCHEDULERS[:]
    for i in range(n):
        d = DefaultDriver('S%d' % i)
        d.create(store_checker=store_checker)
        env.SCHEDULERS.append(d)
    sched_base._SCHEDULER = env.SCHEDULERS[0].sched
    return env.SCHEDULERS
