"""Binding of the explorer to the real Mistral code (DESIGN.md 2.1/2.2).

Everything Mistral-side is the unmodified implementation imported from the
tree under test (VERIF_TREE, default /repo).  This module owns the
nondeterminism: OS scheduling (greenlet activities), RPC transport, thread
spawning after commit, time, ids, action results.

Import order matters (see memory notes): test config, db base, db api, then
std actions.
"""
import os
import sys

TREE = os.environ.get('VERIF_TREE') or '/repo'
if TREE not in sys.path:
    sys.path.insert(0, TREE)
os.environ.setdefault('PYTHONHASHSEED', '0')

import warnings  # noqa: E402
warnings.filterwarnings('ignore')

import datetime  # noqa: E402
import hashlib  # noqa: E402
import json  # noqa: E402
import logging  # noqa: E402
import re  # noqa: E402

logging.disable(logging.CRITICAL)

import greenlet  # noqa: E402
from oslo_config import cfg  # noqa: E402
from mistral.tests.unit import config as _test_config  # noqa: E402

_test_config.parse_args()
CONF = cfg.CONF

from mistral.db.sqlalchemy import base as db_base  # noqa: E402

CONF.set_default('connection', 'sqlite://', group='database')

from mistral.db.v2 import api as db_api  # noqa: E402
from mistral.db.v2.sqlalchemy import models  # noqa: E402,F401
from mistral import context as auth_context  # noqa: E402
from mistral import exceptions as mexc  # noqa: E402
from mistral.services import security  # noqa: E402
from mistral.services import workflows as wf_service  # noqa: E402,F401
from mistral.services import workbooks as wb_service  # noqa: E402,F401
from mistral.services import legacy_scheduler  # noqa: E402
from mistral.scheduler import default_scheduler  # noqa: E402
from mistral.scheduler import base as sched_base  # noqa: E402
from mistral.engine import default_engine, post_tx_queue  # noqa: E402
from mistral.engine import engine_server  # noqa: E402
from mistral.executors import executor_server, default_executor  # noqa: E402
from mistral.executors import base as exe_base  # noqa: E402,F401
from mistral.rpc import base as rpc_base  # noqa: E402
from mistral.rpc import clients as rpc_clients  # noqa: E402
from mistral.services import actions as action_service  # noqa: E402
from mistral.services import action_heartbeat_sender  # noqa: E402
from mistral.lang import parser as spec_parser  # noqa: E402
from mistral.workflow import states  # noqa: E402,F401
from mistral_lib import actions as ml_actions  # noqa: E402
import mistral_lib.utils as mlu  # noqa: E402
from oslo_utils import timeutils, uuidutils  # noqa: E402

assert os.path.realpath(default_engine.__file__).startswith(
    os.path.realpath(TREE)), (default_engine.__file__, TREE)

BASE_OVERRIDES = [
    ('only_builtin_actions', True, 'legacy_action_provider'),
    ('load_action_generators', False, 'legacy_action_provider'),
    ('type', 'remote', 'executor'),
    ('execution_integrity_check_delay', -1, 'engine'),
    ('check_interval', 0, 'action_heartbeat'),
    ('auth_enable', False, 'pecan'),
]
for _n, _v, _g in BASE_OVERRIDES:
    CONF.set_override(_n, _v, _g)

# oslo.db discards a connection that is checked out in a forked child; the
# explorer checkpoints states with os.fork() and must keep the in-memory DB.
import oslo_db.sqlalchemy.engines as _oslo_engines  # noqa: E402


class _OsShim(object):
    _pid = os.getpid()

    def __getattr__(self, k):
        return getattr(os, k)

    def getpid(self):
        return self._pid


_oslo_engines.os = _OsShim()

db_api.setup_db()

MAIN = greenlet.getcurrent()
EPOCH = datetime.datetime(2030, 1, 1, 0, 0, 0)


class HarnessError(Exception):
    """The harness itself is broken (never reported as a violation)."""


# ---------------------------------------------------------------- storage
class GLocal(object):
    """Greenlet-local replacement for mistral_lib's thread-local storage."""

    def __init__(self):
        object.__setattr__(self, '_d', {})

    def _cur(self):
        return self._d.setdefault(greenlet.getcurrent(), {})

    def __getattr__(self, k):
        try:
            return self._cur()[k]
        except KeyError:
            raise AttributeError(k)

    def __setattr__(self, k, v):
        self._cur()[k] = v

    def __delattr__(self, k):
        try:
            del self._cur()[k]
        except KeyError:
            raise AttributeError(k)

    def reset(self):
        self._d.clear()

    def drop(self, g):
        self._d.pop(g, None)


GL = GLocal()
mlu._th_loc_storage = GL


# ---------------------------------------------------------------- ids / time
ID_FMT = '00000000-0000-4000-8000-%012d'
ID_RE = re.compile(r'00000000-0000-4000-8000-(\d{12})')


class Ids:
    n = 1000
    # optional permutation of the low digits for id-rank scenarios
    perm = None


def gen_uuid(dashed=True):
    Ids.n += 1
    n = Ids.n
    if Ids.perm is not None:
        n = Ids.perm(n)
    return ID_FMT % n


uuidutils.generate_uuid = gen_uuid


def now():
    return timeutils.utcnow()


def set_clock(offset_s):
    W.clock = offset_s
    timeutils.set_time_override(EPOCH + datetime.timedelta(seconds=offset_s))


# ---------------------------------------------------------------- world
class World(object):
    def __init__(self):
        self.seq = 0            # creation sequence (activities and messages)
        self.acts = []          # live activities
        self.msgs = []          # pending messages
        self.clock = 0          # seconds since EPOCH
        self.exceptions = []    # (where, class name, is_mistral, text)
        self.runs = {}          # action key -> number of runs so far
        self.run_log = []       # (key, attempt)
        self.msg_log = []       # (seq, topic, method, short args, sender)
        self.events = []        # monitor events (since last drain)
        self.steps = 0
        self.last_act = None
        self.results = {}       # action key -> list of outcomes
        self.eager_executor = True
        self.async_pending = []  # (action_ex_id, Result) to be posted
        self.poll_active = {}   # scheduler instance name -> activity
        self.extra = {}         # scenario private data
        self.rp = False         # read-prefix preemption (see _rp_point)

    def next_seq(self):
        self.seq += 1
        return self.seq


W = World()


def cur_act():
    return getattr(greenlet.getcurrent(), 'activity', None)


def _is_mistral_exc(e):
    import mistral_lib.exceptions as mle
    return isinstance(e, (mexc.MistralException, mexc.MistralError,
                          mle.MistralExceptionBase))


class Activity(object):
    """A greenlet running real Mistral code between yield points."""

    def __init__(self, kind, desc, fn, waiter_of=None):
        self.kind = kind
        self.desc = desc
        self.seq = W.next_seq()
        self.steps = 0
        self.dirty = False
        self.blocked_on = None     # message or ('time', t) or ('cond', obj)
        self.done = False
        self.result = None
        self.exc = None
        self.obs = []              # observation log (part of the descriptor)
        self.chain_ops = None      # for post-commit chains: op descriptors
        self.chain_pos = 0
        self.msg = waiter_of

        def body():
            try:
                self.result = fn()
            except greenlet.GreenletExit:
                raise
            except BaseException as e:  # noqa
                self.exc = e
                W.exceptions.append(
                    (self.kind + ':' + self.desc[:120], type(e).__name__,
                     _is_mistral_exc(e), str(e)[:300]))
            finally:
                self.done = True
                try:
                    auth_context.set_ctx(None)
                except Exception:
                    pass

        self.g = greenlet.greenlet(body, parent=MAIN)
        self.g.activity = self

    @property
    def label(self):
        return 'A%d' % self.seq

    def enabled(self):
        if self.done:
            return False
        b = self.blocked_on
        if b is None:
            return True
        if isinstance(b, tuple) and b[0] == 'time':
            return W.clock >= b[1]
        if isinstance(b, Wait):
            return b.notified or (b.deadline is not None
                                  and W.clock >= b.deadline)
        return False

    def descriptor(self):
        d = [self.kind, self.desc, self.steps, _blocked_desc(self.blocked_on),
             self.obs]
        if self.chain_ops is not None:
            d.append(self.chain_ops[self.chain_pos:])
        return d

    def resume(self):
        self.steps += 1
        if isinstance(self.blocked_on, tuple) and self.blocked_on[0] == 'time':
            self.blocked_on = None
        if isinstance(self.blocked_on, Wait):
            self.blocked_on = None
        W.last_act = self
        self.g.switch()
        if self.done:
            GL.drop(self.g)


class Wait(object):
    """Blocked on a condition variable (optionally with a timeout)."""

    def __init__(self, what, deadline=None):
        self.what = what
        self.deadline = deadline
        self.notified = False


def _blocked_desc(b):
    if b is None:
        return None
    if isinstance(b, Wait):
        return 'wait:%s:%s:%s' % (
            b.what, b.notified,
            None if b.deadline is None else b.deadline - W.clock)
    if isinstance(b, Msg):
        return 'msg:' + b.desc()
    if isinstance(b, tuple):
        if b[0] == 'time':
            return 'time+%d' % (b[1] - W.clock)
        return b[0]
    return 'x'


def yield_point(tag='yield'):
    MAIN.switch(tag)


# ---------------------------------------------------------------- db seam
_orig_get_session = db_base._get_session


def _get_session():
    a = cur_act()
    if a is not None:
        if getattr(a, 'db_faulted', False) and \
                not getattr(a, 'db_fault_retried', False):
            # the retry after an injected deadlock follows at once (events
            # between the two attempts are not explored): the command's
            # step stays one step for the oracles
            a.db_fault_retried = True
        elif a.dirty:
            a.dirty = False
            yield_point('tx')
        a.dirty = True
    return _orig_get_session()


db_base._get_session = _get_session


# ---------------------------------------------------------------- overlap
# Read-prefix preemption (opt-in per scenario, W.rp): a transaction that has
# only *read* so far may be overtaken by complete transactions of other
# activities before it issues its first write (or takes its first lock).
# This is exactly what READ COMMITTED allows for transactions that overlap
# in a real MySQL / PostgreSQL: the reads took no locks, the later writes
# see whatever was committed in between, and the ORM objects loaded by the
# prefix are stale.  On the single shared SQLite connection the read-only
# prefix is committed before the switch and a new transaction is begun when
# the activity resumes - equivalent, because the prefix wrote nothing.
def _rp_point(what):
    a = cur_act()
    if a is None or not W.rp:
        return
    if getattr(a, 'tx_wrote', False):
        return
    a.tx_wrote = True
    if not getattr(a, 'tx_reads', 0) or not getattr(a, 'tx_open', False):
        return
    raw = raw_conn()
    if not raw.in_transaction:
        return
    raw.execute('COMMIT')
    a.obs.append(['rp', what])
    a.dirty = False
    yield_point('rp')
    a.obs.pop()
    raw_conn().execute('BEGIN')


CMD_METHODS = ('.stop_workflow', '.pause_workflow', '.resume_workflow',
               '.rerun_workflow')


def _install_rp():
    from sqlalchemy import event
    eng = db_base.get_engine()

    @event.listens_for(eng, 'before_cursor_execute')
    def _before(conn, cursor, statement, parameters, context, executemany):
        a = cur_act()
        if a is None:
            return
        head = statement.lstrip()[:6].upper()
        if head == 'BEGIN':
            a.tx_open, a.tx_reads, a.tx_wrote = True, 0, False
        elif head == 'SELECT':
            a.tx_reads = getattr(a, 'tx_reads', 0) + 1
        elif head in ('INSERT', 'UPDATE', 'DELETE'):
            if W.rp:
                _rp_point('%s %s' % (statement[:160],
                                     repr(parameters)[:240]))
            else:
                a.tx_wrote = True

    @event.listens_for(eng, 'commit')
    def _commit(conn):
        a = cur_act()
        if a is not None:
            a.tx_open = False

    @event.listens_for(eng, 'rollback')
    def _rollback(conn):
        a = cur_act()
        if a is not None:
            a.tx_open = False

    from mistral.db.v2.sqlalchemy import api as sa_api
    orig_commit = sa_api.commit_tx

    def commit_tx():
        a = cur_act()
        if a is not None and W.extra.get('cmd_db_fault') and \
                a.kind == 'msg' and not getattr(a, 'db_faulted', False) \
                and any(m in a.desc for m in CMD_METHODS):
            # injected fault: the first commit of an operator command is
            # refused by the database, which rolls the transaction back and
            # reports a deadlock; the engine promises to retry such a
            # transaction transparently (db_utils.retry_on_db_error)
            a.db_faulted = True
            sa_api.rollback_tx()
            from oslo_db import exception as db_exc
            raise db_exc.DBDeadlock()
        return orig_commit()
    sa_api.commit_tx = commit_tx

    from mistral.db.sqlalchemy import sqlite_lock
    orig = sqlite_lock.acquire_lock

    def acquire_lock(obj_id, session):
        # taking a lock counts as the first write: the activity may be
        # overtaken before it holds the lock, never while it holds it
        _rp_point('lock %s' % obj_id)
        return orig(obj_id, session)
    sqlite_lock.acquire_lock = acquire_lock


_RAW = []


def raw_conn():
    """The single sqlite3 connection behind the StaticPool.  The pool fairy
    is kept alive for ever: returning it would emit a ROLLBACK on the shared
    connection behind SQLAlchemy's back."""
    if not _RAW:
        _RAW.append(db_base.get_engine().raw_connection())
    return _RAW[0].driver_connection


# ---------------------------------------------------------------- threads
def _describe_value(v, depth=0):
    if v is None or isinstance(v, (bool, int, float, str)):
        return v
    if depth > 2:
        return type(v).__name__
    if isinstance(v, (list, tuple)):
        return [_describe_value(x, depth + 1) for x in v[:6]]
    if isinstance(v, dict):
        return {str(k): _describe_value(x, depth + 1)
                for k, x in list(v.items())[:8]}
    out = [type(v).__name__]
    for attr in ('task_ex', 'action_ex', 'wf_ex'):
        o = getattr(v, attr, None)
        if o is not None and getattr(o, 'id', None):
            out.append('%s=%s' % (attr, o.id))
    i = getattr(v, '__dict__', {}).get('id')
    if isinstance(i, str):
        out.append('id=%s' % i)
    for attr in ('waiting', 'rerun', 'error', 'data', 'cancel'):
        if attr in getattr(v, '__dict__', {}):
            out.append('%s=%r' % (attr, v.__dict__[attr]))
    return out


def _describe_op(func, args, in_tx):
    d = [getattr(func, '__qualname__', str(func)), bool(in_tx),
         _describe_value(list(args))]
    for c in (getattr(func, '__closure__', None) or ()):
        try:
            d.append(_describe_value(c.cell_contents))
        except ValueError:
            pass
    for v in (getattr(func, '__defaults__', None) or ()):
        d.append(_describe_value(v))
    return json.dumps(d, sort_keys=True, default=str)


def _find_queue(target):
    for c in (getattr(target, '__closure__', None) or ()):
        try:
            v = c.cell_contents
        except ValueError:
            continue
        if isinstance(v, list) and v and all(
                isinstance(t, tuple) and len(t) == 3 and callable(t[0])
                for t in v):
            return v
    return None


class GThread(object):
    """Replacement of threading.Thread inside post_tx_queue."""

    def __init__(self, target=None, **kw):
        self.target = target

    def start(self):
        parent = cur_act()
        a = Activity('chain', parent.desc if parent else 'main', self.target)
        a.parent = parent
        q = _find_queue(self.target)
        if q is not None:
            a.chain_ops = [_describe_op(*t) for t in q]

            def wrap(f):
                def w(*args, **kw):
                    a.chain_pos += 1
                    return f(*args, **kw)
                w.__qualname__ = getattr(f, '__qualname__', 'op')
                return w
            q[:] = [(wrap(f), args, in_tx) for (f, args, in_tx) in q]
        W.acts.append(a)


class _ThreadingShim(object):
    Thread = GThread


post_tx_queue.threading = _ThreadingShim


# ---------------------------------------------------------------- rpc
SER = auth_context.RpcContextSerializer()

# parameters each endpoint method really consumes (canonical message form)
_IGNORED_KW = {'start_task': ('params',)}


class Msg(object):
    def __init__(self, topic, ctx, method, kwargs, waiter=None):
        self.topic = topic
        self.ctx = SER.serialize_context(ctx) if ctx is not None else {}
        # "redelivered" is a per-delivery mark of the transport: a message
        # sent while handling a redelivered request does not inherit it
        if self.ctx.get('redelivered'):
            self.ctx['redelivered'] = False
        self.method = method
        self.kwargs = {k: SER.serialize_entity(None, v)
                       for k, v in kwargs.items()}
        self.waiter = waiter
        self.seq = W.next_seq()
        self.reply = None
        self.dup_of = None
        self._desc = None
        sender = cur_act()
        W.msg_log.append((self.seq, topic, method, self.short(),
                          sender.label if sender else 'ext'))
        W.extra.setdefault('msgs_seen', []).append(self)

    @property
    def label(self):
        return 'M%d' % self.seq

    def clone(self, redelivered=False):
        m = Msg.__new__(Msg)
        m.topic, m.method = self.topic, self.method
        m.ctx = dict(self.ctx)
        if redelivered:
            m.ctx['redelivered'] = True
        m.kwargs = dict(self.kwargs)
        m.waiter = None
        m.seq = W.next_seq()
        m.reply = None
        m.dup_of = self.seq
        m._desc = None
        W.msg_log.append((m.seq, m.topic, m.method, m.short(), 'dup'))
        return m

    def desc(self):
        if self._desc is None:
            kw = dict(self.kwargs)
            for k in _IGNORED_KW.get(self.method, ()):
                kw.pop(k, None)
            extra = ''
            if self.ctx.get('redelivered'):
                extra = '!redelivered'
            proj = self.ctx.get('project_id') or self.ctx.get('project')
            self._desc = '%s.%s%s@%s(%s)' % (
                self.topic, self.method, extra, proj,
                json.dumps(kw, sort_keys=True, default=str))
        return self._desc

    def short(self):
        kw = {k: v for k, v in self.kwargs.items()
              if k in ('task_ex_id', 'action_ex_id', 'wf_ex_id',
                       'wf_identifier', 'first_run', 'state', 'wf_action',
                       'rerun', 'reset', 'skip')}
        return json.dumps(kw, sort_keys=True, default=str)


class Driver(rpc_base.RPCClient):
    def __init__(self, conf):
        super(Driver, self).__init__(conf)
        self.topic = conf.topic

    def async_call(self, ctx, method, target=None, fanout=False, **kwargs):
        icpt = getattr(W, 'rpc_intercept', None)
        if icpt is not None:
            handled, reply = icpt(self.topic, ctx, method, kwargs)
            if handled:
                return reply
        a = cur_act()
        if a is not None:
            a.dirty = True
        W.msgs.append(Msg(self.topic, ctx, method, kwargs))

    def sync_call(self, ctx, method, target=None, **kwargs):
        icpt = getattr(W, 'rpc_intercept', None)
        if icpt is not None:
            handled, reply = icpt(self.topic, ctx, method, kwargs)
            if handled:
                return reply
        a = cur_act()
        m = Msg(self.topic, ctx, method, kwargs, waiter=a)
        W.msgs.append(m)
        if a is None:
            raise HarnessError('sync_call outside an activity: %s' % method)
        a.blocked_on = m
        a.dirty = False
        yield_point('blocked')
        r = m.reply
        if isinstance(r, BaseException):
            raise r
        return r


rpc_base._IMPL_CLIENT = Driver
rpc_clients.cleanup()
rpc_base._IMPL_CLIENT = Driver

ENGINE_EP = engine_server.EngineServer(default_engine.DefaultEngine(),
                                       setup_profiler=False)
_EXECUTOR_EP = []


def executor_ep():
    if not _EXECUTOR_EP:
        _EXECUTOR_EP.append(executor_server.ExecutorServer(
            default_executor.DefaultExecutor(), setup_profiler=False))
    return _EXECUTOR_EP[0]


# the heartbeat sender keeps a module level set guarded by a real lock and is
# only meaningful with its own thread: neutralise (C20 drives heartbeats
# explicitly through the engine endpoint)
action_heartbeat_sender.add_action = lambda action_ex_id: None
action_heartbeat_sender.remove_action = lambda action_ex_id: None


def deliver(m):
    """Turn a pending message into an activity running the real endpoint."""
    is_engine = (m.topic == CONF.engine.topic)
    ep = ENGINE_EP if is_engine else executor_ep()

    def fn():
        ctx = SER.deserialize_context(dict(m.ctx)) if m.ctx else None
        kwargs = {k: SER.deserialize_entity(None, v)
                  for k, v in m.kwargs.items()}
        try:
            r = getattr(ep, m.method)(ctx, **kwargs)
            m.reply = r
            return r
        except BaseException as e:
            m.reply = e
            raise
        finally:
            if m.waiter is not None:
                m.waiter.blocked_on = None

    a = Activity('msg', m.desc(), fn, waiter_of=m)
    return a


# ---------------------------------------------------------------- actions
class VerifAct(ml_actions.Action):
    """Deterministic action: outcome looked up by (key, attempt)."""

    def __init__(self, key='x', **kw):
        self.key = str(key)

    def run(self, context):
        n = W.runs.get(self.key, 0)
        W.runs[self.key] = n + 1
        try:
            aid = context.execution.action_execution_id
        except Exception:
            aid = None
        W.run_log.append((self.key, n, aid))
        seq = W.results.get(self.key) or ['S']
        r = seq[min(n, len(seq) - 1)]
        if r == 'S':
            return ml_actions.Result(data=self.key)
        if isinstance(r, (list, tuple)) and r[0] == 'S':
            return ml_actions.Result(data=r[1])
        if r == 'C':
            return ml_actions.Result(error='cancel-%s' % self.key,
                                     cancel=True)
        return ml_actions.Result(error='boom-%s' % self.key)

    def test(self, context):
        return None


class VerifAsyncAct(VerifAct):
    """Asynchronous action: the executor reports nothing; the third party
    that will eventually call back is modelled by a pending external
    on_action_complete message created when the action is started."""

    def is_sync(self):
        return False

    def run(self, context):
        n = W.runs.get(self.key, 0)
        W.runs[self.key] = n + 1
        aid = context.execution.action_execution_id
        W.run_log.append((self.key, n, aid))
        seq = W.results.get(self.key) or ['S']
        r = seq[min(n, len(seq) - 1)]
        if r == 'N':          # the third party never answers
            return None
        if r == 'S':
            res = ml_actions.Result(data=self.key)
        elif isinstance(r, (list, tuple)) and r[0] == 'S':
            res = ml_actions.Result(data=r[1])
        elif r == 'C':
            res = ml_actions.Result(error='cancel-%s' % self.key,
                                    cancel=True)
        else:
            res = ml_actions.Result(error='boom-%s' % self.key)
        W.async_pending.append((aid, res))
        return None


_tp = action_service.get_test_action_provider()
_tp.register_python_action('verif.act', VerifAct)
_tp.register_python_action('verif.async_act', VerifAsyncAct)


# ---------------------------------------------------------------- schedulers
class LegacyDriver(object):
    """Runs the real LegacyScheduler poll as an activity."""

    def __init__(self, name='S0'):
        self.name = name
        self.crashed = False
        self.sched = legacy_scheduler.LegacyScheduler(CONF.scheduler)

    def due(self):
        c = raw_conn().cursor()
        lim = (now() + datetime.timedelta(seconds=1)).strftime(
            '%Y-%m-%d %H:%M:%S')
        c.execute("select count(*) from delayed_calls_v2 where processing=0 "
                  "and execution_time < ?", (lim,))
        return c.fetchone()[0]

    def next_time(self):
        c = raw_conn().cursor()
        c.execute("select min(execution_time) from delayed_calls_v2 "
                  "where processing=0")
        mn = c.fetchone()[0]
        if mn is None:
            return None
        t = datetime.datetime.strptime(mn[:19], '%Y-%m-%d %H:%M:%S')
        return int((t - EPOCH).total_seconds())

    def poll_enabled(self):
        a = W.poll_active.get(self.name)
        if a is not None and not a.done:
            return False
        return self.due() > 0

    def start_poll(self):
        a = Activity('poll', self.name,
                     lambda: self.sched._process_delayed_calls())
        a.owner = self.name
        W.poll_active[self.name] = a
        W.acts.append(a)
        return a


_orig_capture_calls = legacy_scheduler.LegacyScheduler._capture_calls


def _capture_calls_obs(batch_size):
    r = _orig_capture_calls(batch_size)
    a = cur_act()
    if a is not None:
        a.obs.append(['captured', sorted(c.id for c in r)])
    return r


legacy_scheduler.LegacyScheduler._capture_calls = staticmethod(
    _capture_calls_obs)

SCHEDULERS = []


def use_legacy_scheduler(n=1):
    del SCHEDULERS[:]
    for i in range(n):
        SCHEDULERS.append(LegacyDriver('S%d' % i))
    sched_base._SCHEDULER = SCHEDULERS[0].sched
    return SCHEDULERS


# ---------------------------------------------------------------- reset
_install_rp()
SNAP0 = raw_conn().serialize()
_overrides = []


def configure(overrides):
    """overrides: list of (name, value, group)."""
    for n, g in _overrides:
        CONF.clear_override(n, g)
    del _overrides[:]
    for n, v, g in BASE_OVERRIDES:
        CONF.set_override(n, v, g)
    for n, v, g in overrides or []:
        CONF.set_override(n, v, g)
        _overrides.append((n, g))


def reset(results=None, overrides=None, eager_executor=True, n_sched=1,
          scheduler='legacy'):
    global W
    for a in list(W.acts):
        if not a.done:
            try:
                a.g.throw(greenlet.GreenletExit)
            except BaseException:
                pass
    W.__init__()
    GL.reset()
    Ids.n = 1000
    Ids.perm = None
    raw_conn().deserialize(SNAP0)
    configure(overrides)
    spec_parser.clear_caches()
    auth_context.set_ctx(None)
    W.results = dict(results or {})
    W.eager_executor = eager_executor
    set_clock(0)
    if scheduler == 'legacy':
        use_legacy_scheduler(n_sched)
    else:
        from mc import sched_default
        sched_default.use_default_scheduler(
            n_sched, store_checker=(scheduler != 'default_mem'))
    return W


def default_ctx(project=None, admin=False):
    return auth_context.MistralContext.from_dict({
        'user_name': 'u', 'user': '1',
        'project_id': project or security.DEFAULT_PROJECT_ID,
        'project_name': 'p', 'is_admin': admin})


def post(method, topic=None, ctx=None, **kwargs):
    """Inject an external message (API request / operator command)."""
    m = Msg(topic or CONF.engine.topic, ctx or default_ctx(), method, kwargs)
    W.msgs.append(m)
    return m


def with_ctx(fn, ctx=None):
    auth_context.set_ctx(ctx or default_ctx())
    try:
        return fn()
    finally:
        auth_context.set_ctx(None)


# ---------------------------------------------------------------- stepping
class Choice(object):
    __slots__ = ('label', 'kind', 'obj', 'seq', 'info', 'cost', 'is_rerun',
                 'tag')

    def __init__(self, label, kind, obj, seq, info='', cost=1,
                 is_rerun=False, tag=None):
        self.label, self.kind, self.obj, self.seq, self.info = (
            label, kind, obj, seq, info)
        self.cost = cost
        self.is_rerun = is_rerun
        self.tag = tag

    def __repr__(self):
        return '%s[%s]' % (self.label, self.info[:100])


def enabled_choices():
    """Enabled steps in canonical order: the activity that ran last first
    (if still enabled), then by creation order; scheduler polls last."""
    ch = []
    for a in W.acts:
        if a.enabled():
            ch.append(Choice(a.label, 'act', a, a.seq,
                             a.kind + ':' + a.desc))
    for m in W.msgs:
        ch.append(Choice(m.label, 'msg', m, m.seq, m.desc()))
    ch.sort(key=lambda c: c.seq)
    if W.last_act is not None:
        first = None
        for i, c in enumerate(ch):
            if c.obj is W.last_act:
                first = i
                break
        if first is None:
            # the activity that ran last has finished: the post-commit
            # thread it spawned runs next (what the real process does right
            # after the commit), before older pending messages
            for i, c in enumerate(ch):
                if c.kind == 'act' and getattr(c.obj, 'parent',
                                               None) is W.last_act:
                    first = i
                    break
        if first is not None:
            ch.insert(0, ch.pop(first))
    for s in SCHEDULERS:
        if s.poll_enabled():
            ch.append(Choice('P' + s.name, 'poll', s, 10 ** 9, 'poll'))
    return ch


def next_clock_event():
    ts = []
    for s in SCHEDULERS:
        t = s.next_time()
        if t is not None and t > W.clock:
            ts.append(t)
    for a in W.acts:
        b = a.blocked_on
        if not a.done and isinstance(b, tuple) and b[0] == 'time' \
                and b[1] > W.clock:
            ts.append(b[1])
        if not a.done and isinstance(b, Wait) and not b.notified \
                and b.deadline is not None and b.deadline > W.clock:
            ts.append(b.deadline)
    return min(ts) if ts else None


def deliver_now(m):
    """Deliver a just-posted external message immediately (one step)."""
    step(Choice(m.label, 'msg', m, m.seq, m.desc()))


def step(choice):
    W.steps += 1
    if getattr(W, 'clear_caches', False):
        spec_parser.clear_caches()
    if choice.kind == 'msg':
        W.msgs.remove(choice.obj)
        a = deliver(choice.obj)
        W.acts.append(a)
    elif choice.kind == 'poll':
        a = choice.obj.start_poll()
    else:
        a = choice.obj
    a.resume()
    W.acts = [x for x in W.acts if not x.done]
    eager_closure()


def eager_closure():
    """Run left-movers eagerly: heads of fresh post-commit chains (pure
    sends up to their first transaction) and executor deliveries."""
    progress = True
    while progress or W.async_pending:
        while W.async_pending:
            aid, res = W.async_pending.pop(0)
            post('on_action_complete', action_ex_id=aid, result=res,
                 wf_action=False)
        progress = False
        for a in list(W.acts):
            if a.kind == 'chain' and a.steps == 0 and not a.done:
                a.dirty = True      # makes it yield before its first tx
                last = W.last_act
                a.resume()
                W.last_act = last
                progress = True
        W.acts = [x for x in W.acts if not x.done]
        if W.eager_executor:
            for m in list(W.msgs):
                if m.topic == CONF.executor.topic and not m.dup_of \
                        and not m.ctx.get('redelivered'):
                    W.msgs.remove(m)
                    a = deliver(m)
                    last = W.last_act
                    a.resume()
                    W.last_act = last
                    if not a.done:
                        W.acts.append(a)
                    progress = True


# ---------------------------------------------------------------- canon
TABLES = {
    'workflow_executions_v2': [
        'id', 'name', 'state', 'state_info', 'accepted', 'output', 'input',
        'params', 'runtime_context', 'task_execution_id',
        'root_execution_id', 'context', 'project_id', 'workflow_namespace'],
    'task_executions_v2': [
        'id', 'name', 'state', 'state_info', 'processed', 'has_next_tasks',
        'next_tasks', 'error_handled', 'in_context', 'published',
        'runtime_context', 'unique_key', 'workflow_execution_id', 'type'],
    'action_executions_v2': [
        'id', 'name', 'state', 'state_info', 'accepted', 'output', 'input',
        'runtime_context', 'task_execution_id', 'is_sync'],
    'delayed_calls_v2': [
        'id', 'target_method_name', 'method_arguments', 'key',
        'execution_time', 'processing'],
    'scheduled_jobs_v2': [
        'id', 'func_name', 'func_args', 'key', 'execute_at', 'captured_at',
        'run_after'],
    'named_locks': ['id', 'name'],
    'cron_triggers_v2': ['id', 'name', 'project_id', 'pattern',
                         'first_execution_time', 'next_execution_time',
                         'remaining_executions', 'workflow_name', 'scope'],
}
TIME_COLS = {'execution_time', 'execute_at', 'captured_at', 'last_heartbeat',
             'created_at', 'updated_at', 'started_at', 'finished_at',
             'next_execution_time', 'first_execution_time'}


def dump_tables(tables=None):
    """Raw rows as dicts (no renaming)."""
    c = raw_conn().cursor()
    out = {}
    for t, cols in (tables or TABLES).items():
        c.execute('select %s from %s order by id' % (','.join(cols), t))
        out[t] = [dict(zip(cols, r)) for r in c.fetchall()]
    return out


def _rel_time(v):
    if v is None:
        return None
    try:
        t = datetime.datetime.strptime(str(v)[:19], '%Y-%m-%d %H:%M:%S')
    except ValueError:
        return str(v)
    return 'T%+d' % int((t - EPOCH).total_seconds() - W.clock)


def id_labels(dump):
    idmap = {}
    for r in dump.get('workflow_executions_v2', []):
        idmap[r['id']] = 'W[%s/%s/%s]' % (
            r['name'], r['task_execution_id'] or '',
            json.loads(r['runtime_context'] or '{}').get('index', 0))
    cnt = {}
    for r in dump.get('task_executions_v2', []):
        k = (r['workflow_execution_id'], r['name'])
        cnt[k] = cnt.get(k, 0) + 1
        idmap[r['id']] = 'T[%s/%s#%d]' % (r['workflow_execution_id'],
                                          r['name'], cnt[k])
    cnt = {}
    for r in dump.get('action_executions_v2', []):
        idx = json.loads(r['runtime_context'] or '{}').get('index', 0)
        k = (r['task_execution_id'], idx)
        cnt[k] = cnt.get(k, 0) + 1
        idmap[r['id']] = 'A[%s/%s#%d]' % (r['task_execution_id'], idx, cnt[k])
    for t in ('delayed_calls_v2', 'scheduled_jobs_v2', 'named_locks',
              'cron_triggers_v2'):
        for r in dump.get(t, []):
            idmap[r['id']] = 'J'
    return idmap


def make_sub(idmap):
    def rep(mo):
        return idmap.get(mo.group(0), mo.group(0))

    def sub(s):
        for _ in range(4):
            s2 = ID_RE.sub(rep, s)
            if s2 == s:
                break
            s = s2
        return s
    return sub


def canon_of(dump, extra=None, keep_clock=False):
    sub = make_sub(id_labels(dump))
    rows = []
    for t, rs in dump.items():
        for r in rs:
            vals = [t]
            for k, v in r.items():
                if k in TIME_COLS:
                    v = _rel_time(v)
                vals.append(v if isinstance(v, (int, float, type(None)))
                            else str(v))
            rows.append(sub(json.dumps(vals)))
    rows.sort()
    pend = sorted(sub(m.desc()) for m in W.msgs)
    acts = sorted(sub(json.dumps(a.descriptor(), default=str, sort_keys=True))
                  for a in W.acts if not a.done)
    mem = [s.mem_state() for s in SCHEDULERS if hasattr(s, 'mem_state')]
    parts = [
        '\n'.join(rows), '\n'.join(pend), '\n'.join(acts),
        json.dumps(sorted(W.runs.items())),
        json.dumps(extra, sort_keys=True, default=str),
    ]
    if mem:
        parts.append(sub(json.dumps(mem, default=str)))
    if keep_clock:
        parts.append(str(W.clock))
    return '\n--\n'.join(parts)


def state_hash_of(dump, extra=None, keep_clock=False):
    return hashlib.blake2b(canon_of(dump, extra, keep_clock).encode(),
                           digest_size=16).digest()


def canon(extra=None, tables=None, keep_clock=False):
    return canon_of(dump_tables(tables), extra, keep_clock)


def state_hash(extra=None, tables=None, keep_clock=False):
    return state_hash_of(dump_tables(tables), extra, keep_clock)


# ---------------------------------------------------------------- monitors
def install_expr_monitor():
    """C05: evaluating expressions never modifies the stored context.
    Wraps mistral.expressions.evaluate / evaluate_recursively: structural
    copy of the context before, comparison after; differences are logged in
    W.events as ('ctx_mutated', ...)."""
    import copy
    from mistral import expressions as expr_mod
    if getattr(expr_mod, '_verif_wrapped', False):
        return
    expr_mod._verif_wrapped = True

    def snap(ctx):
        ds = getattr(ctx, 'dicts', None)
        if ds is None:
            ds = [ctx]
        try:
            return copy.deepcopy([dict(d) if d is not None else None
                                  for d in ds]), ds
        except Exception:
            return None, ds

    def wrap(fn):
        def w(expression, context):
            before, ds = snap(context)
            try:
                return fn(expression, context)
            finally:
                if before is not None:
                    after = [dict(d) if d is not None else None for d in ds]
                    if after != before:
                        W.events.append(('ctx_mutated', str(expression)[:80],
                                         json.dumps(before, default=str)[:300],
                                         json.dumps(after, default=str)[:300]))
        w.__name__ = fn.__name__
        return w

    expr_mod.evaluate = wrap(expr_mod.evaluate)
    _orig_rec = expr_mod.evaluate_recursively

    def rec(data, context):
        before, ds = snap(context)
        try:
            return _orig_rec(data, context)
        finally:
            if before is not None:
                after = [dict(d) if d is not None else None for d in ds]
                if after != before:
                    W.events.append(('ctx_mutated', str(data)[:80],
                                     json.dumps(before, default=str)[:300],
                                     json.dumps(after, default=str)[:300]))
    expr_mod.evaluate_recursively = rec


def install_state_monitor():
    """C03: log every individual workflow state change request (the
    compare-and-swap call), including ones overwritten inside a transaction:
    W.events gets ('wf_state', wf_id, cur_state, new_state, applied, act)."""
    if getattr(db_api, '_verif_state_monitor', False):
        return
    db_api._verif_state_monitor = True
    orig = db_api.update_workflow_execution_state

    def wrapped(**kw):
        r = orig(**kw)
        a = cur_act()
        W.events.append(('wf_state', kw.get('id'), kw.get('cur_state'),
                         kw.get('state'), r is not None, a))
        return r
    db_api.update_workflow_execution_state = wrapped
