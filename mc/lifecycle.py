"""C03 transition oracle: execution lifecycle and finality of results,
evaluated on two consecutive committed DB images."""
from mc.wfscn import jl

WF_OK = {
    ('IDLE', 'RUNNING'),
    ('RUNNING', 'PAUSED'), ('RUNNING', 'SUCCESS'), ('RUNNING', 'ERROR'),
    ('RUNNING', 'CANCELLED'),
    ('PAUSED', 'RUNNING'), ('PAUSED', 'ERROR'), ('PAUSED', 'CANCELLED'),
}
WF_FINAL = ('SUCCESS', 'ERROR', 'CANCELLED')
DONE = ('SUCCESS', 'ERROR', 'CANCELLED')


def step_desc(choice):
    """Short, id-free description of the step (for stable messages)."""
    import re
    if choice is None:
        return '?'
    if choice.kind == 'ext':
        return 'command ' + (choice.tag or choice.label)
    info = choice.info or ''
    m = re.search(r'\.(\w+)(!redelivered)?@', info)
    meth = m.group(1) if m else info.split(':')[0]
    flags = []
    for k in ('first_run', 'rerun', 'wf_action', 'skip', 'reset'):
        mm = re.search(r'"%s": "?(true|false)' % k, info)
        if mm and mm.group(1) == 'true':
            flags.append(k)
    if choice.kind == 'poll':
        return 'scheduler poll'
    pre = 'post-commit of ' if info.startswith('chain:') else ''
    if info.startswith('poll'):
        return 'scheduler job'
    return '%s%s(%s)' % (pre, meth, ','.join(flags))


def lifecycle_violations(pre, post, is_rerun=False, choice=None):
    v = []
    sd = step_desc(choice)
    pw = {w['id']: w for w in pre['workflow_executions_v2']}
    for w in post['workflow_executions_v2']:
        p = pw.get(w['id'])
        if p is None:
            if w['state'] not in ('IDLE', 'RUNNING', 'PAUSED', 'ERROR',
                                  'SUCCESS', 'CANCELLED'):
                v.append('workflow %s created in state %s'
                         % (w['name'], w['state']))
            continue
        a, b = p['state'], w['state']
        if a != b:
            # committed images may skip intermediate states of one
            # transaction (resume: PAUSED -> RUNNING -> SUCCESS); the
            # individual moves are checked by the state monitor, here: a
            # final state is only left by a rerun, SUCCESS never
            if a == 'SUCCESS':
                v.append('workflow execution %s left SUCCESS for %s in step '
                         '%s' % (w['name'], b, sd))
            elif a in ('ERROR', 'CANCELLED') and not is_rerun:
                v.append('workflow execution %s left %s for %s without a '
                         'rerun in step %s' % (w['name'], a, b, sd))
            elif b == 'IDLE':
                v.append('workflow execution %s moved %s -> IDLE'
                         % (w['name'], a))
        elif a in WF_FINAL and not is_rerun:
            for col in ('output', 'state_info'):
                if p[col] != w[col]:
                    v.append('finished workflow %s (%s): %s changed later in '
                             'step %s: %s -> %s' % (w['name'], a, col, sd,
                                                    str(p[col])[:150],
                                                    str(w[col])[:150]))
    for w in pre['workflow_executions_v2']:
        if w['id'] not in {x['id'] for x in post['workflow_executions_v2']}:
            v.append('workflow execution %s disappeared' % w['name'])
    pa = {a['id']: a for a in pre['action_executions_v2']}
    for a in post['action_executions_v2']:
        p = pa.get(a['id'])
        if p is None:
            continue
        if p['state'] in DONE:
            if a['state'] != p['state'] or a['output'] != p['output']:
                v.append('completed action execution %s (%s) changed in '
                         'step %s: state %s -> %s, output %s -> %s'
                         % (a['name'], a['id'][-4:], sd, p['state'],
                            a['state'], str(p['output'])[:100],
                            str(a['output'])[:100]))
            if not p['accepted'] and a['accepted']:
                v.append('result of action execution %s accepted a second '
                         'time (accepted flag set again)' % a['id'][-4:])
    pt = {t['id']: t for t in pre['task_executions_v2']}
    for t in post['task_executions_v2']:
        p = pt.get(t['id'])
        if p is None:
            continue
        if p['state'] == 'SUCCESS' and t['state'] != 'SUCCESS':
            v.append('task %s reached SUCCESS and then moved to %s in step '
                     '%s' % (t['name'], t['state'], sd))
    return v


def states_table_violations():
    """The workflow-level restriction of states._VALID_TRANSITIONS must be
    exactly the table of the statement (81 pairs enumerated)."""
    from mistral.workflow import states
    v = []
    wf_states = ['IDLE', 'RUNNING', 'PAUSED', 'SUCCESS', 'ERROR',
                 'CANCELLED']
    n = 0
    for a in states._ALL:
        for b in states._ALL:
            n += 1
            if a not in wf_states or b not in wf_states or a == b:
                continue
            got = states.is_valid_transition(a, b)
            want = (a, b) in WF_OK or (a in ('ERROR', 'CANCELLED')
                                       and b == 'RUNNING')
            # IDLE -> ERROR/CANCELLED (stop before start) is tolerated by
            # the engine table; the statement lists the normal moves only
            if a == 'IDLE' and b in ('ERROR', 'CANCELLED'):
                continue
            if got != want:
                v.append('states table: %s -> %s is %s, statement says %s'
                         % (a, b, got, want))
    return n, v


def monitor_violations(events, is_rerun=False):
    """Individual compare-and-swap state changes logged by
    env.install_state_monitor()."""
    v = []
    for e in events:
        if e[0] != 'wf_state':
            continue
        _, wid, cur, new, applied, act = e
        if not applied or cur == new:
            continue
        if act is not None and act.exc is not None:
            continue        # its transaction rolled back
        if (cur, new) in WF_OK:
            continue
        if cur in ('ERROR', 'CANCELLED') and new == 'RUNNING' and is_rerun:
            continue
        if cur == 'IDLE' and new in ('ERROR', 'CANCELLED'):
            continue
        v.append('workflow state change %s -> %s applied%s'
                 % (cur, new, ' in a rerun step' if is_rerun else ''))
    return v
