"""C15, expression functions: executions() / execution() / tasks() / task() /
global() evaluated (a) directly through the real evaluators under every
tenant-shaped context, (b) inside a real workflow run by the real engine on
each path that hands expression evaluation a different security context
(RPC context of the caller, context restored by the scheduler from a delayed
call, administrative context of the action heartbeat checker)."""
import json

from mc import env
from mc import c15_model as M
from mc import c15_world as W

from mistral import context as auth_context
from mistral import exceptions as mexc
from mistral import expressions as expr
from mistral.db.v2 import api as db_api
from mistral.services import action_heartbeat_checker as hb_checker

# ------------------------------------------------------------------ direct
# thread contexts a tenant's expressions are evaluated with
EXPR_CTX = {
    'A': lambda: W.ctx_of('A'),
    'B': lambda: W.ctx_of('B'),
    'ADM': lambda: W.ctx_of('ADM'),
    # context created for a cron trigger run (security.create_context)
    'B-trust': lambda: auth_context.MistralContext(
        user_id='u', project_id=W.PID['B'], auth_token='t',
        is_trust_scoped=True,
        trust_id='trust-B'),
    # context set by periodic.process_cron_triggers_v2 before advancing
    'B-cron': lambda: auth_context.MistralContext(
        user_id=None, project_id=W.PID['B'], auth_token=None,
        is_admin=False),
}
EXPR_CALLER = {'A': 'A', 'B': 'B', 'ADM': 'ADM', 'B-trust': 'B',
               'B-cron': 'B'}


class EOp(object):
    def __init__(self, text, variant, data, mode=None, sel=None):
        self.text, self.data, self.mode, self.sel = text, data, mode, sel
        self.fn = text.split('(')[0]
        self.id = '%s[%s]' % (text, variant)


def expr_ops(s):
    rid = s.ids['A']
    a = s.aux['A']
    ops = []

    def both(text, variant, data, mode=None, sel=None):
        ops.append(EOp(text, variant + ',yaql', data, mode, sel))
        ops.append(EOp(text, variant + ',jinja', data, mode, sel))

    own = {'__execution': {'id': a['wf_ex']}, '__task_execution': None}
    if s.typ == 'wf_ex':
        both('executions()', 'all', own, 'many', W._all)
        both("executions('%s')" % rid, 'id=A', own, 'many', W._by_id)
        both("executions(null, '%s')" % rid, 'root=A', own, 'many',
             W._f('root_execution_id', rid))
        both("executions(null, null, 'SUCCESS')", 'state', own, 'many',
             W._f('state', 'SUCCESS'))
        both('execution()', 'ctx=A', own, 'one', W._by_id)
        both("global('secret')", 'ctx=A', own)
    else:
        both('tasks()', 'all', own, 'many', W._all)
        both("tasks('%s')" % a['wf_ex'], 'wf_ex=A', own, 'many',
             W._f('workflow_execution_id', a['wf_ex']))
        both("tasks('%s', true)" % a['wf_ex'], 'wf_ex=A,recursive', own,
             'many', W._f('workflow_execution_id', a['wf_ex']))
        both("tasks(null, false, 'SUCCESS')", 'state', own, 'many',
             W._f('state', 'SUCCESS'))
        both("tasks('%s', true, 'SUCCESS', true)" % a['wf_ex'],
             'wf_ex=A,recursive,state,flat', own, 'many',
             lambda s_, pre: W.rows(
                 pre, s.table,
                 lambda r: r['workflow_execution_id'] == a['wf_ex']
                 and r['state'] == 'SUCCESS'))
        cur = {'__execution': {'id': a['wf_ex']},
               '__task_execution': {'id': rid, 'name': W.NAME}}
        both('task()', 'ctx=A', cur, 'one', W._by_id)
        both("task('%s')" % W.NAME, 'ctx=A,by-name', own, 'one', W._by_id)
    return ops


def _text(op):
    if op.id.endswith(',jinja]'):
        t = op.text.replace('null', 'none')
        return '{{ %s }}' % t
    return '<%% %s %%>' % op.text


def _ids(o, out):
    if isinstance(o, dict):
        if isinstance(o.get('id'), str):
            out.append(o['id'])
        for v in o.values():
            _ids(v, out)
    elif isinstance(o, (list, tuple)):
        # yaql turns DB models into lists of [column, value] pairs
        if len(o) == 2 and o[0] == 'id' and isinstance(o[1], str):
            out.append(o[1])
        for v in o:
            _ids(v, out)
    return out


def run_expr_op(s, op, who):
    s.restore()
    caller = W.CALLERS[EXPR_CALLER[who]]
    obs = {'exc': None, 'ids': [], 'any': False}
    res = {}

    def body():
        with db_api.transaction():
            r = expr.evaluate(_text(op), dict(op.data))
            ids = W.extract_ids(r)
            txt = json.dumps(r, default=lambda o: o.to_dict() if hasattr(
                o, 'to_dict') else str(o))
            res['txt'] = txt
            res['ids'] = ids + _ids(json.loads(txt), [])
            res['any'] = bool(r)

    auth_context.set_ctx(EXPR_CTX[who]())
    try:
        body()
    except (mexc.MistralException, mexc.MistralError) as e:
        obs['exc'] = type(e).__name__
        obs['err'] = str(e)[:300]
    except Exception as e:  # noqa
        obs['exc'] = 'OTHER:' + type(e).__name__
        obs['err'] = str(e)[:300]
    finally:
        auth_context.set_ctx(None)
    txt = res.get('txt', '')
    marks = [rid for m, rid in s.marks.items() if m in txt]
    obs['ids'] = res.get('ids', [])
    obs['any'] = bool(res.get('any'))
    post = M.dump(env.raw_conn())
    pre = s.pre
    required = op.sel(s, pre) if op.sel else None
    # an evaluation error says something about readability only if it is
    # the 'not found' of a single-row lookup
    if obs['exc'] and not (op.mode == 'one' and not obs['exc'].startswith(
            'OTHER') and 'not found' in obs.get('err', '')):
        required = None
    br = M.judge(pre, post, caller, returned_ids=obs['ids'],
                 leaked_marks=marks, required=required, mode=op.mode,
                 returned_anything=obs['any'] and not obs['exc'])
    obs['post_hash'] = M.state_hash(post)
    obs['changed'] = post != pre
    obs['req_ids'] = [i for _, i in (required or [])]
    obs['expect_visible'] = bool(required) and any(
        M.must_see(pre, t, pre[t][i], caller) for t, i in required)
    obs['expect_hidden'] = bool(required) and not any(
        M.visible(pre, t, pre[t][i], caller) for t, i in required)
    return obs, br


# ------------------------------------------------------------------ engine
ENGINE_PATHS = ('rpc', 'scheduler', 'heartbeat')
ENGINE_EXPRS = [
    ('executions()', 'executions()'),
    ('executions(id=A)', "executions('%(wf_ex)s')"),
    ('tasks()', 'tasks()'),
    ('tasks(wf_ex=A)', "tasks('%(wf_ex)s')"),
    ('tasks(wf_ex=A,recursive)', "tasks('%(wf_ex)s', true)"),
]

SPY = """---
version: '2.0'
spy:
  tasks:
    t1:
      action: verif.act key="k"
%(wait)s      %(clause)s:
        seen: %(expr)s
      on-error: t2
    t2:
      action: std.noop
"""


class EngineCase(object):
    """Tenant B runs a workflow whose publish clause calls an expression
    function; A owns private executions / tasks.  path: how the engine comes
    to evaluate the clause."""

    def __init__(self, path, ename, lang):
        self.path, self.ename, self.lang = path, ename, lang
        self.fn = 'engine:%s' % path
        self.id = '%s[%s,%s]' % (self.fn, ename, lang)

    def spec(self):
        return [self.path, self.ename, self.lang]


def engine_cases():
    return [EngineCase(p, n, lang) for p in ENGINE_PATHS
            for n, _ in ENGINE_EXPRS for lang in ('yaql', 'jinja')]


def _drain(limit=400):
    n = 0
    while n < limit:
        ch = [c for c in env.enabled_choices()
              if not (c.kind == 'msg'
                      and c.obj.topic == env.CONF.executor.topic)]
        if not ch:
            t = env.next_clock_event()
            if t is None or t > env.W.clock + 120:
                break
            env.set_clock(t)
            continue
        env.step(ch[0])
        n += 1
    return n


def run_engine_case(case):
    s = W.Setup('task_ex', 'private', 'none', 'none').build()
    a = s.aux['A']
    e = dict(ENGINE_EXPRS)[case.ename] % {'wf_ex': a['wf_ex']}
    text = ('<%% %s %%>' % e) if case.lang == 'yaql' else \
        ('{{ %s }}' % e.replace('null', 'none'))
    hb = case.path == 'heartbeat'
    yaml_text = SPY % {
        'wait': '      wait-before: 1\n' if case.path == 'scheduler' else '',
        'clause': 'publish-on-error' if hb else 'publish',
        'expr': '"%s"' % text.replace('"', '\\"'),
    }
    env.W.eager_executor = not hb
    env.with_ctx(lambda: env.wf_service.create_workflows(yaml_text, validate=False),
                 W.ctx_of('B'))
    pre = M.dump(env.raw_conn())
    env.post('start_workflow', ctx=W.ctx_of('B'), wf_identifier='spy',
             wf_namespace='', wf_ex_id=None, wf_input={}, description='',
             params={})
    steps = _drain()
    if hb:
        env.set_clock(env.W.clock + 4000)

        def run_checker():
            # what action_heartbeat_checker._loop does before each pass
            auth_context.set_ctx(auth_context.MistralContext(
                user_id=None, project_id=None, auth_token=None,
                is_admin=True))
            hb_checker.handle_expired_actions()
        env.W.acts.append(env.Activity('hb', 'heartbeat-checker',
                                       run_checker))
        steps += _drain()
    post = M.dump(env.raw_conn())
    caller = W.CALLERS['B']
    # everything B can read of its own run
    new_rows = [(t, r) for t in ('workflow_executions_v2',
                                 'task_executions_v2',
                                 'action_executions_v2')
                for i, r in post[t].items()
                if i not in pre[t] and r['project_id'] in ('B', None)]
    blob, ids = [], []
    for t, r in new_rows:
        for v in r.values():
            if isinstance(v, str):
                blob.append(v)
                if v[:1] in '[{':
                    try:
                        _ids(json.loads(v), ids)
                    except ValueError:
                        pass
    blob = '\n'.join(blob)
    leaked = [rid for m, rid in s.marks.items() if m in blob]
    own = set(r['id'] for t, r in new_rows)
    br = M.judge(pre, pre, caller, returned_ids=[i for i in ids
                                                 if i not in own],
                 leaked_marks=leaked)
    br = [(b, d + " [stored in the rows of B's own run]") for b, d in br]
    # A's rows must be untouched by B's run
    diff = M.judge(pre, {t: {i: r for i, r in rows.items() if i in pre[t]}
                         for t, rows in post.items()}, caller)
    br += [x for x in diff if x[0].startswith(('modify-', 'delete-'))]
    t1 = [r for r in post['task_executions_v2'].values()
          if r['name'] == 't1' and r['project_id'] in ('B', None)]
    obs = {'exc': None, 'steps': steps, 'post_hash': M.state_hash(post),
           'changed': True, 'ids': [],
           'evaluated': bool(t1) and t1[0]['state'] in ('SUCCESS', 'ERROR')
           and 'seen' in (t1[0]['published'] or ''),
           'orphans': sorted('%s/%s' % (t, r['name']) for t, r in new_rows
                             if r['project_id'] is None),
           'exceptions': [x[1] for x in env.W.exceptions][:3]}
    return obs, br


# ------------------------------------------------------------------ use
USE_KINDS = ('workflow', 'action', 'environment')
USER_WF = {
    'workflow': """---
version: '2.0'
user:
  tasks:
    t1:
      workflow: %s
""" % W.NAME,
    'action': """---
version: '2.0'
user:
  tasks:
    t1:
      action: %s
""" % W.NAME,
    'environment': """---
version: '2.0'
user:
  tasks:
    t1:
      action: std.noop
      publish:
        seen: <% env() %>
""",
}


class UseCase(object):
    """Tenant `who` runs a workflow of its own that addresses A's workflow
    (as sub-workflow) / ad-hoc action / environment *by name*."""

    def __init__(self, kind, scope, who, share='none'):
        self.kind, self.scope, self.who, self.share = kind, scope, who, share
        self.fn = 'engine:use-by-name'
        self.id = '%s[%s,%s,share=%s,as=%s]' % (self.fn, kind, scope, share,
                                                who)

    def spec(self):
        return [self.kind, self.scope, self.who, self.share]


def use_cases():
    out = []
    for k in USE_KINDS:
        for scope in ('private', 'public'):
            for who in ('A', 'B', 'ADM'):
                out.append(UseCase(k, scope, who))
    for share in ('pending', 'accepted', 'rejected'):
        out.append(UseCase('workflow', 'private', 'M', share))
    return out


def run_use_case(case):
    s = W.Setup(case.kind, case.scope, 'none', case.share).build()
    who = case.who
    caller = W.CALLERS[who]
    env.W.eager_executor = True
    env.with_ctx(lambda: env.wf_service.create_workflows(
        USER_WF[case.kind], validate=False), W.ctx_of(who))
    pre = M.dump(env.raw_conn())
    params = {'env': W.NAME} if case.kind == 'environment' else {}
    env.post('start_workflow', ctx=W.ctx_of(who), wf_identifier='user',
             wf_namespace='', wf_ex_id=None, wf_input={}, description='',
             params=params)
    steps = _drain()
    post = M.dump(env.raw_conn())
    blob = []
    for t in ('workflow_executions_v2', 'task_executions_v2',
              'action_executions_v2'):
        for i, r in post[t].items():
            if i not in pre[t]:
                blob.extend(v for v in r.values() if isinstance(v, str))
    blob = '\n'.join(blob)
    leaked = [rid for m, rid in s.marks.items() if m in blob]
    br = M.judge(pre, post, caller, leaked_marks=leaked)
    root = [r for r in post['workflow_executions_v2'].values()
            if r['name'] == 'user']
    obs = {'exc': None, 'steps': steps, 'post_hash': M.state_hash(post),
           'changed': True, 'ids': [],
           'state': root[0]['state'] if root else None,
           'used': bool(leaked),
           'exceptions': [x[1] for x in env.W.exceptions][:3]}
    return obs, br
