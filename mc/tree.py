"""Puts the tree under test (VERIF_TREE, default /repo) first on sys.path.
Import this before importing anything from `mistral`."""
import os
import sys

TREE = os.environ.get('VERIF_TREE') or '/repo'
if TREE not in sys.path:
    sys.path.insert(0, TREE)
os.environ.setdefault('PYTHONHASHSEED', '0')


def assert_tree(module):
    f = os.path.realpath(module.__file__)
    assert f.startswith(os.path.realpath(TREE)), (f, TREE)
