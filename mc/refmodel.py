"""Reference abstract machine of the Mistral workflow language (DESIGN 2.6).

No transactions, messages, scheduler or ids: a state is a set of task
instances; one step = "a running task finishes with its assigned result".
All completion orders are explored; the result is the SET of outcomes the
language allows for (program, input, results) plus flags.

Written from the language documentation; deliberately independent of the
engine's data structures (context versions are replaced by causal publisher
stamps, join bookkeeping by reachability).
"""
import json

RUNNING, WAITING, SUCCESS, ERROR = 'RUNNING', 'WAITING', 'SUCCESS', 'ERROR'
CANCELLED = 'CANCELLED'
DONE = (SUCCESS, ERROR, 'SKIPPED', CANCELLED)
CMDS = ('fail', 'succeed', 'pause', 'noop')


class EvalError(Exception):
    pass


def freeze(x):
    return json.dumps(x, sort_keys=True, default=str)


# ------------------------------------------------------------------ context
# A context maps a leaf path (tuple of keys) to (value, publisher) where
# publisher is an instance id "name#ord" (or 'input').
def flatten(name, value, pub, out):
    def rec(path, v):
        if isinstance(v, dict) and v:
            for k, x in v.items():
                rec(path + (k,), x)
        else:
            out[path] = (v, pub)
    rec((name,), value)


def unflatten(ctx):
    res = {}
    for path, (v, _) in sorted(ctx.items()):
        d = res
        for k in path[:-1]:
            nxt = d.get(k)
            if not isinstance(nxt, dict):
                nxt = {}
                d[k] = nxt
            d = nxt
        d[path[-1]] = v
    return res


def lookup(var, layers):
    """layers: list of plain dicts in priority order; referring to a
    variable nobody defined is an evaluation error (YAQL and Jinja with
    strict undefined both fail)."""
    for d in layers:
        if var in d:
            return d[var]
    raise EvalError('undefined variable %s' % var)


class Prog(object):
    def __init__(self, prog):
        self.p = prog
        self.tasks = prog['tasks']
        self.names = list(self.tasks)
        self.defaults = prog.get('task-defaults') or {}

    def clause(self, tname, kind):
        own = self.tasks[tname].get(kind) or []
        if own:
            return own
        d = self.defaults.get(kind) or []
        return [t for t in d if _target(t) != tname]

    def outbound(self, tname):
        s = []
        for kind in ('on-success', 'on-error', 'on-complete', 'on-skip'):
            for t in self.clause(tname, kind):
                s.append(_target(t))
        return s

    def inbound(self, tname):
        return [u for u in self.names if tname in self.outbound(u)]

    def start_tasks(self):
        return [t for t in self.names if not self.inbound(t)]


def _target(t):
    return t[0] if isinstance(t, (list, tuple)) else t


def _guard(t):
    return t[1] if isinstance(t, (list, tuple)) else None


class State(object):
    __slots__ = ('insts', 'wf', 'runs', 'flags', 'glob', 'wf_output')

    def __init__(self):
        self.insts = {}     # id -> dict
        self.wf = RUNNING
        self.runs = {}
        self.flags = set()
        self.glob = {}
        self.wf_output = None

    def copy(self):
        s = State()
        s.insts = {k: dict(v) for k, v in self.insts.items()}
        s.wf = self.wf
        s.runs = dict(self.runs)
        s.flags = set(self.flags)
        s.glob = dict(self.glob)
        s.wf_output = self.wf_output
        return s

    def key(self):
        return freeze([sorted((k, _inst_key(v))
                              for k, v in self.insts.items()),
                       self.wf, sorted(self.runs.items()),
                       sorted(self.flags), self.wf_output])


def _inst_key(i):
    d = dict(i)
    d['ctx'] = sorted((list(k), v) for k, v in i['ctx'].items())
    if 'out' in d:
        d['out'] = sorted((list(k), v) for k, v in i['out'].items())
    d['anc'] = sorted(i['anc'])
    return d


SKIPPED = 'SKIPPED'


class Model(object):
    def __init__(self, prog, wf_input=None, results=None, env=None,
                 skipped=(), timeouts_may_win=False):
        self.skipped = set(skipped)
        self.timeouts_may_win = timeouts_may_win
        self.P = Prog(prog)
        self.input = dict(prog.get('input') or {})
        self.input.update(wf_input or {})
        self.results = results or {}
        self.env = env or {}
        self.outcomes = {}
        self.seen = set()
        self.max_states = 20000

    # ---------------------------------------------------------------- eval
    def eval(self, e, layers, inst=None):
        if not isinstance(e, (list, tuple)):
            return e
        op = e[0]
        if op == 'lit':
            return e[1]
        if op == 'var':
            return lookup(e[1], layers)
        if op == 'eq':
            return lookup(e[1], layers) == e[2]
        if op == 'inc':
            v = lookup(e[1], layers)
            if not isinstance(v, (int, float)):
                raise EvalError('inc of non number')
            return v + 1
        if op == 'true':
            return True
        if op == 'false':
            return False
        if op == 'result':
            return inst.get('result') if inst else None
        if op == 'env':
            return self.env.get(e[1])
        if op == 'bad':
            raise EvalError('bad expression')
        raise ValueError(op)

    def eval_deep(self, v, layers, inst=None):
        if isinstance(v, dict):
            return {k: self.eval_deep(x, layers, inst) for k, x in v.items()}
        return self.eval(v, layers, inst)

    def layers(self, ctx):
        return [unflatten(ctx), self.glob_of(), self.input]

    def glob_of(self):
        return self._glob

    # ---------------------------------------------------------------- run
    def run(self):
        s = State()
        self._glob = {}
        try:
            vs = self.P.p.get('vars') or {}
            s.glob = self.eval_deep(vs, [{}, self.input])
        except EvalError:
            s.wf = ERROR
            s.flags.add('start_failed')
            self._finish(s)
            return self.result()
        for t in self.P.start_tasks():
            self._create(s, t, [], None)
        self._settle(s)
        self._dfs(s)
        return self.result()

    def result(self):
        outs = list(self.outcomes.values())
        return {'outcomes': outs,
                'confluent': len(outs) == 1 and
                not any(o['flags'] for o in outs),
                'truncated': len(self.seen) >= self.max_states}

    def _dfs(self, s):
        k = s.key()
        if k in self.seen or len(self.seen) >= self.max_states:
            return
        self.seen.add(k)
        running = [i for i, v in s.insts.items() if v['state'] == RUNNING]
        if not running:
            self._finish(s)
            return
        for iid in sorted(running):
            name = s.insts[iid]['name']
            if self.P.tasks[name].get('workflow') and \
                    not self.P.tasks[name].get('with-items'):
                for s2 in self._complete_subwf(s, iid):
                    self._dfs(s2)
                if self._policy(name, 'timeout') and self.timeouts_may_win:
                    # the timeout of the sub-workflow task may expire while
                    # the child still runs
                    for s2 in self._complete(s, iid, forced=ERROR):
                        self._dfs(s2)
                continue
            never = self._never_answers(s, name)
            to = self._policy(name, 'timeout')
            if not never:
                for s2 in self._complete(s, iid):
                    self._dfs(s2)
            if to and (never or self.timeouts_may_win):
                for s2 in self._complete(s, iid, forced=ERROR):
                    self._dfs(s2)
            if never and not to:
                # nobody will ever finish this task
                s2 = s.copy()
                s2.insts[iid]['state'] = 'STUCK'
                s2.flags.add('stuck')
                self._dfs(s2)

    def _finish(self, s):
        out = self.outcome(s)
        k = freeze(out)
        self.outcomes[k] = out
        # action runs consumed by this run (a parent model continues the
        # per-key attempt counters after a child run)
        runs = self.__dict__.setdefault('outcome_runs', {}).setdefault(k, {})
        for key, n in s.runs.items():
            runs[key] = max(runs.get(key, 0), n)

    def outcome(self, s):
        tasks = sorted(
            ([v['name'], v['state'],
              {k: x for k, x in (v.get('published') or {}).items()},
              unflatten(v['ctx'])]
             for v in s.insts.values()), key=freeze)
        return {'wf': s.wf, 'tasks': tasks, 'output': s.wf_output,
                'flags': sorted(s.flags)}

    # ---------------------------------------------------------------- steps
    def _new_id(self, s, name):
        n = sum(1 for v in s.insts.values() if v['name'] == name)
        return '%s#%d' % (name, n + 1)

    def _create(self, s, name, triggers, ctx, waiting=False):
        iid = self._new_id(s, name)
        anc = set()
        for t in triggers:
            anc |= set(s.insts[t]['anc'])
            anc.add(t)
        s.insts[iid] = {
            'name': name, 'state': WAITING if waiting else RUNNING,
            'ctx': dict(ctx or {}), 'anc': sorted(anc),
            'trig': list(triggers), 'published': None, 'next': None,
            'handled': None, 'result': None,
        }
        return iid

    def _action_result(self, s, inst):
        t = self.P.tasks[inst['name']]
        kind = t.get('action', 'act')
        if kind == 'noop':
            return SUCCESS, None
        if kind == 'fail':
            return ERROR, None
        if t.get('with-items'):
            return self._with_items_result(s, inst, t)
        key = t.get('key', inst['name'])
        n = s.runs.get(key, 0)
        s.runs[key] = n + 1
        seq = self.results.get(key) or ['S']
        r = seq[min(n, len(seq) - 1)]
        if inst['name'] in self.skipped:
            return SKIPPED, None
        if r == 'S':
            return SUCCESS, key
        if isinstance(r, (list, tuple)) and r[0] == 'S':
            return SUCCESS, r[1]
        if r == 'C':
            return CANCELLED, 'cancel-%s' % key
        return ERROR, 'boom-%s' % key

    def _complete_subwf(self, s0, iid):
        """A sub-workflow task ends with the state of the child run and the
        child's output as its result (one successor per child outcome)."""
        t = self.P.tasks[s0.insts[iid]['name']]
        child = (self.P.p.get('subs') or {})[t['workflow']]
        child = dict(child)
        child.setdefault('subs', self.P.p.get('subs'))
        out = []
        try:
            self._glob = s0.glob
            winp = self.eval_deep(t.get('wf-input') or {},
                                  self.layers(s0.insts[iid]['ctx']),
                                  s0.insts[iid])
        except EvalError:
            s = s0.copy()
            self._after_complete(s, iid, ERROR)
            return self._settle_all(s)
        declared = set(child.get('input') or {})
        # the child continues the per-key attempt counters of this run
        # (results are looked up by how often an action key ran so far)
        shifted = {}
        for k, seq in (self.results or {}).items():
            n = s0.runs.get(k, 0)
            shifted[k] = list(seq[min(n, len(seq) - 1):]) if seq else seq
        cm = Model(child, {k: v for k, v in winp.items() if k in declared},
                   shifted, self.env, self.skipped,
                   self.timeouts_may_win)
        cm.run()
        for ok, o in cm.outcomes.items():
            s = s0.copy()
            for k, n in (getattr(cm, 'outcome_runs', {}).get(ok)
                         or {}).items():
                s.runs[k] = s.runs.get(k, 0) + n
            inst = s.insts[iid]
            st = o['wf']
            if st not in (SUCCESS, ERROR, CANCELLED):
                continue
            inst['result'] = json.loads(o['output']) \
                if (st == SUCCESS and o['output']) else None
            for fl in o['flags']:
                s.flags.add('child:' + fl)
            self._after_complete(s, iid, st)
            out.extend(self._settle_all(s))
        return out

    def _with_items_result(self, s, inst, t):
        """All items of a with-items task: one action (or sub-workflow) per
        item, ERROR if any item failed, results in item order."""
        import re
        m = re.search(r'[$_]\.(\w+)', t['with-items'])
        items = lookup(m.group(1), self.layers(inst['ctx']))
        if not isinstance(items, list):
            raise EvalError('with-items over a non-list')
        results, failed = [], False
        prev = inst.get('item_results')
        for idx, it in enumerate(items):
            key = str(it)
            if prev is not None and prev[idx][0] == SUCCESS and \
                    not inst.get('reset'):
                results.append(prev[idx])
                continue
            n = s.runs.get(key, 0)
            s.runs[key] = n + 1
            seq = self.results.get(key) or ['S']
            r = seq[min(n, len(seq) - 1)]
            if r == 'S':
                results.append((SUCCESS, key))
            elif r == 'C':
                results.append((CANCELLED, 'cancel-%s' % key))
            else:
                failed = True
                results.append((ERROR, 'boom-%s' % key))
        inst['item_results'] = results
        if inst['name'] in self.skipped:
            return SKIPPED, None
        if any(x[0] == CANCELLED for x in results):
            return CANCELLED, [x[1] for x in results]
        return (ERROR if failed else SUCCESS), [x[1] for x in results]

    def _complete(self, s0, iid, forced=None):
        """Instance finishes; returns successor states (several when a data
        conflict allows more than one merge result)."""
        s = s0.copy()
        inst = s.insts[iid]
        if forced is None:
            state, result = self._action_result(s, inst)
        else:
            state, result = forced, None
            if inst['state'] == RUNNING and \
                    self.P.tasks[inst['name']].get('join') is None:
                # a timed-out attempt still consumed its action run
                t = self.P.tasks[inst['name']]
                key = t.get('key', inst['name'])
                s.runs[key] = s.runs.get(key, 0) + 1
        inst['result'] = result
        self._after_complete(s, iid, state)
        return self._settle_all(s)

    def _after_complete(self, s, iid, state):
        inst = s.insts[iid]
        name = inst['name']
        t = self.P.tasks[name]
        inst['state'] = state
        self._glob = s.glob
        # publish
        if state == CANCELLED:
            pub_spec = None
        elif state == SKIPPED:
            pub_spec = t.get('publish-on-skip')
        else:
            pub_spec = t.get('publish') if state == SUCCESS \
                else t.get('publish-on-error')
        # transition-level publish (advanced on-clause syntax): the
        # on-complete clause and the clause of the task's state add branch
        # and global variables.  Where two levels name the same variable
        # the documentation is silent; the implementation merges without
        # overwriting (task level, then on-complete, then the state's
        # clause) and the model follows it.
        glob_spec = {}
        if state in (SUCCESS, ERROR):
            for ck in ('on-complete-publish',
                       'on-success-publish' if state == SUCCESS
                       else 'on-error-publish'):
                cp = t.get(ck) or {}
                if cp.get('branch'):
                    merged = dict(cp['branch'])
                    merged.update(pub_spec or {})
                    pub_spec = merged
                for k, v in (cp.get('global') or {}).items():
                    glob_spec.setdefault(k, v)
        try:
            if glob_spec:
                gv = self.eval_deep(glob_spec, self.layers(inst['ctx']), inst)
                s.glob = dict(s.glob)
                for k, v in gv.items():
                    s.glob[k] = v
                self._glob = s.glob
            if pub_spec:
                pub = self.eval_deep(pub_spec, self.layers(inst['ctx']), inst)
            else:
                # nothing is published for this state: what an earlier
                # attempt of the same task published stays in place
                pub = dict(inst.get('published') or {})
            inst['published'] = pub
            out_ctx = dict(inst['ctx'])
            for var, val in pub.items():
                for p in [p for p in out_ctx if p[0] == var]:
                    del out_ctx[p]
                flatten(var, val, iid, out_ctx)
            inst['out'] = out_ctx
            # fail-on policy: a successful task becomes ERROR
            fo = self._policy(name, 'fail-on')
            # (policy fields are evaluated against the task's inbound
            # context; only the retry conditions see the published values)
            if state == SUCCESS and fo is not None and \
                    self.eval(fo, self.layers(inst['ctx']), inst):
                state = ERROR
                inst['state'] = ERROR
            # retry policy (evaluated on every completion, before routing)
            rp = self._policy(name, 'retry')
            if rp:
                rp = dict(rp)
                rp['count'] = int(self.eval(rp.get('count', 0),
                                            self.layers(inst['ctx']), inst))
            if rp and rp['count'] > 0:
                lay = self.layers(out_ctx)
                cont = rp.get('continue-on')
                brk = rp.get('break-on')
                cont_v = self.eval(cont, lay, inst) if cont is not None \
                    else None
                brk_v = self.eval(brk, lay, inst) if brk is not None \
                    else None
                done_retries = inst.get('retry_no', 0)
                remain = done_retries < int(rp['count'])
                stop_cont = (state == SUCCESS and cont is None) or \
                    (cont is not None and not cont_v)
                broke = state == ERROR and bool(brk_v)
                if remain and not broke and not stop_cont:
                    inst['retry_no'] = done_retries + 1
                    inst['state'] = RUNNING
                    inst['published'] = pub
                    return
            if s.wf != RUNNING:
                inst['next'] = []
                inst['handled'] = False
                return
            trans = []
            lay = self.layers(out_ctx)
            if state == ERROR:
                for tr in self.P.clause(name, 'on-error'):
                    g = _guard(tr)
                    if g is None or self.eval(g, lay, inst):
                        trans.append((_target(tr), 'on-error'))
            skip_empty = False
            if state == SKIPPED:
                for tr in self.P.clause(name, 'on-skip'):
                    g = _guard(tr)
                    if g is None or self.eval(g, lay, inst):
                        trans.append((_target(tr), 'on-skip'))
                skip_empty = not trans
            if state == SUCCESS or skip_empty:
                for tr in self.P.clause(name, 'on-success'):
                    g = _guard(tr)
                    if g is None or self.eval(g, lay, inst):
                        trans.append((_target(tr), 'on-success'))
            if state not in (SKIPPED, CANCELLED):
                for tr in self.P.clause(name, 'on-complete'):
                    g = _guard(tr)
                    if g is None or self.eval(g, lay, inst):
                        trans.append((_target(tr), 'on-complete'))
        except EvalError:
            # a failing expression turns the task and the workflow to ERROR
            inst['state'] = ERROR
            if inst.get('published') is None:
                inst['published'] = {}
            inst.setdefault('out', dict(inst['ctx']))
            inst['next'] = []
            inst['handled'] = False
            if s.wf == RUNNING:
                s.wf = ERROR
                s.flags.discard('x')
            return
        inst['next'] = [x for x in trans if x[0] not in CMDS]
        if state == ERROR:
            inst['handled'] = any(ev == 'on-error' for _, ev in trans)
        # dispatch: noop dropped; a state command cuts the list
        cmds = [x for x in trans if x[0] != 'noop']
        idx = next((i for i, x in enumerate(cmds)
                    if x[0] in ('fail', 'succeed', 'pause')), None)
        if idx is not None:
            before, cmd = cmds[:idx], cmds[idx][0]
        else:
            before, cmd = cmds, None
        for tgt, ev in before:
            self._route(s, iid, tgt)
        if cmd == 'fail':
            s.wf = ERROR
        elif cmd == 'succeed':
            s.wf = SUCCESS
            s.flags.add('succeed_cmd')
        elif cmd == 'pause':
            s.wf = 'PAUSED'

    def _never_answers(self, s, name):
        t = self.P.tasks[name]
        key = t.get('key', name)
        seq = self.results.get(key) or ['S']
        n = s.runs.get(key, 0)
        return seq[min(n, len(seq) - 1)] == 'N'

    def _policy(self, name, key):
        t = self.P.tasks[name]
        if t.get(key) is not None:
            return t[key]
        return (self.P.defaults or {}).get(key)

    def _route(self, s, src, tgt):
        t = self.P.tasks[tgt]
        if t.get('join'):
            if not any(v['name'] == tgt for v in s.insts.values()):
                self._create(s, tgt, [], None, waiting=True)
        else:
            self._create(s, tgt, [src], s.insts[src]['out'])

    # ---------------------------------------------------------------- joins
    def _by_name(self, s, name):
        return [(i, v) for i, v in s.insts.items() if v['name'] == name]

    def _can_still_run(self, s, name, seen=None):
        seen = seen or set()
        if name in seen:
            return False
        seen = seen | {name}
        inb = self.P.inbound(name)
        if not inb:
            return True
        for u in inb:
            us = self._by_name(s, u)
            if not us:
                if self._can_still_run(s, u, seen):
                    return True
            for _, v in us:
                if v['state'] not in DONE:
                    return True
                if any(n == name for n, _ in (v['next'] or [])):
                    return True
        return False

    def _join_state(self, s, jname):
        j = self.P.tasks[jname]['join']
        inb = self.P.inbound(jname)
        run, err, wait, trig = 0, 0, 0, []
        for u in inb:
            us = self._by_name(s, u)
            if not us:
                if self._can_still_run(s, u):
                    wait += 1
                else:
                    err += 1
                continue
            _, v = us[-1]
            iid = us[-1][0]
            if v['state'] not in DONE:
                wait += 1
            elif any(n == jname for n, _ in (v['next'] or [])):
                run += 1
                trig.append(iid)
            else:
                err += 1
        total = len(inb)
        if j == 'all':
            if run == total:
                return RUNNING, trig
            if err > 0:
                return ERROR, trig
            return WAITING, trig
        need = 1 if j == 'one' else int(j)
        if run >= need:
            return RUNNING, trig
        if err > total - need:
            return ERROR, trig
        return WAITING, trig

    def _settle_all(self, s):
        """Resolve joins to a fixpoint (may fork on merge conflicts) and
        complete the workflow when nothing is left."""
        out = []
        work = [s]
        while work:
            cur = work.pop()
            changed = False
            if cur.wf == RUNNING:
                for iid, v in sorted(cur.insts.items()):
                    if v['state'] != WAITING:
                        continue
                    st, trig = self._join_state(cur, v['name'])
                    if st == RUNNING:
                        for ctx, conflict in self._merge(
                                cur, [cur.insts[t]['out'] for t in trig],
                                trig):
                            n = cur.copy()
                            if conflict:
                                n.flags.add('data_conflict')
                            ji = n.insts[iid]
                            ji['state'] = RUNNING
                            ji['ctx'] = ctx
                            ji['trig'] = list(trig)
                            anc = set()
                            for t in trig:
                                anc |= set(n.insts[t]['anc'])
                                anc.add(t)
                            ji['anc'] = sorted(anc)
                            work.append(n)
                        changed = True
                        break
                    if st == ERROR:
                        for ctx, conflict in self._merge(
                                cur, [cur.insts[t]['out'] for t in trig],
                                trig):
                            n = cur.copy()
                            if conflict:
                                n.flags.add('data_conflict')
                            n.insts[iid]['trig'] = list(trig)
                            n.insts[iid]['ctx'] = ctx
                            self._after_complete(
                                n, iid, SKIPPED if v['name'] in self.skipped
                                else ERROR)
                            work.append(n)
                        changed = True
                        break
            if changed:
                continue
            self._maybe_complete(cur)
            out.append(cur)
        return out

    def _settle(self, s):
        self._maybe_complete(s)

    def _merge(self, s, ctxs, owners):
        """Causal merge of outbound contexts: per leaf keep the values whose
        publisher is not an ancestor of another candidate's publisher.
        Returns [(ctx, conflict_flag)] - several when candidates conflict."""
        paths = set()
        for c in ctxs:
            paths |= set(c)
        base = {}
        conflicts = []
        for p in sorted(paths):
            cands = {}
            for c in ctxs:
                if p in c:
                    v, pub = c[p]
                    cands[pub] = v
            pubs = list(cands)
            keep = []
            for a in pubs:
                stale = False
                for b in pubs:
                    if a != b and b in s.insts and a in s.insts[b]['anc']:
                        stale = True
                if not stale:
                    keep.append(a)
            vals = {freeze(cands[a]): (cands[a], a) for a in keep}
            if len(vals) == 1:
                base[p] = list(vals.values())[0]
            else:
                conflicts.append((p, list(vals.values())))
        # a leaf and a deeper leaf of the same variable (a scalar or null
        # published over a dict, or a dict over a scalar): the one whose
        # publisher causally precedes the other's is stale.  An empty dict
        # has no leaves of its own and never supersedes deeper leaves (the
        # merge is per leaf).
        def is_anc(a, b):
            return b in s.insts and a in s.insts[b]['anc']
        for p in sorted(base):
            if p not in base:
                continue
            deeper = [q for q in base if len(q) > len(p) and q[:len(p)] == p]
            if not deeper:
                continue
            v, pub = base[p]
            if isinstance(v, dict) and not v:
                del base[p]
                continue
            for q in deeper:
                if p not in base:
                    break
                if q not in base:
                    continue
                qpub = base[q][1]
                if qpub == pub or is_anc(qpub, pub):
                    del base[q]          # the deeper leaf is the stale one
                elif is_anc(pub, qpub):
                    del base[p]          # the shallow leaf is the stale one
                else:
                    conflicts.append((p, [base[p], None]))
                    break
        if not conflicts:
            return [(base, False)]
        res = [base]
        for p, options in conflicts:
            nxt = []
            for r in res:
                for opt in options:
                    r2 = dict(r)
                    if opt is None:
                        # concurrent shallow / deep publishers: the deeper
                        # leaves win in this branch of the outcome set
                        r2.pop(p, None)
                    else:
                        for q in [q for q in r2 if len(q) > len(p)
                                  and q[:len(p)] == p]:
                            del r2[q]
                        r2[p] = opt
                    nxt.append(r2)
            res = nxt
        return [(r, True) for r in _uniq(res)]

    # ---------------------------------------------------------------- end
    def _maybe_complete(self, s):
        if s.wf != RUNNING:
            return
        if any(v['state'] in (RUNNING, WAITING) for v in s.insts.values()):
            return
        self._glob = s.glob
        if any(v['state'] == CANCELLED for v in s.insts.values()):
            s.wf = CANCELLED
            return
        unhandled = [v for v in s.insts.values()
                     if v['state'] == ERROR and not v['handled']]
        ends = [(i, v) for i, v in s.insts.items()
                if v['state'] in DONE and not v['next']]
        merged = self._merge(s, [v['out'] for _, v in ends],
                             [i for i, _ in ends])
        # a conflict in the final context only matters if visible in the
        # output: keep the first, flag it
        ctx, conflict = merged[0]
        if len(merged) > 1:
            s.flags.add('output_conflict')
        if unhandled:
            s.wf = ERROR
            return
        spec = self.P.p.get('output')
        try:
            if spec:
                lay = [unflatten(ctx), s.glob, self.input]
                s.wf_output = freeze(self.eval_deep(spec, lay))
            else:
                s.wf_output = freeze(unflatten(ctx))
            s.wf = SUCCESS
        except EvalError:
            s.wf = ERROR
            s.wf_output = None


def _uniq(dicts):
    seen, out = set(), []
    for d in dicts:
        k = freeze(sorted((list(p), v) for p, v in d.items()))
        if k not in seen:
            seen.add(k)
            out.append(d)
    return out


def allowed_outcomes(prog, wf_input=None, results=None, env=None,
                     skipped=(), timeouts_may_win=False):
    return Model(prog, wf_input, results, env, skipped,
                 timeouts_may_win).run()


# ------------------------------------------------------------------ compare
def project_impl(outcome):
    """Project an implementation outcome (mc.wfscn.outcome_of) on the fields
    the model defines."""
    root = [w for w in outcome['wfs'] if not w['parent_task']]
    w = root[0]
    tasks = []
    for t in outcome['tasks']:
        if not t['task'].startswith('T[%s/' % w['wf']):
            continue
        pub = t['published'] or {}
        tasks.append([t['name'], t['state'], pub, t.get('in_context') or {}])
    tasks.sort(key=lambda x: freeze(x))
    out = None
    if w['state'] == SUCCESS:
        o = w['output']
        if isinstance(o, dict):
            o = {k: v for k, v in o.items() if not k.startswith('__')}
        out = freeze(o)
    return {'wf': w['state'], 'tasks': tasks, 'output': out}


def matches(impl_proj, model_out, compare_output=True, compare_ctx=True):
    if impl_proj['wf'] != model_out['wf']:
        return False
    n = 4 if compare_ctx else 3
    mt = sorted((x[:n] for x in model_out['tasks']), key=freeze)
    it = sorted((x[:n] for x in impl_proj['tasks']), key=freeze)
    if freeze(mt) != freeze(it):
        return False
    if compare_output and model_out['wf'] == SUCCESS \
            and 'reverse' not in model_out['flags'] \
            and 'succeed_cmd' not in model_out['flags'] \
            and 'output_conflict' not in model_out['flags']:
        return model_out['output'] == impl_proj['output']
    return True


# ------------------------------------------------------------------ reverse
def reverse_outcomes(prog, target, results):
    """Reverse workflow: run the dependency closure of `target`; a task
    starts once all tasks it requires succeeded; the workflow succeeds iff
    every task of the closure succeeded."""
    tasks = prog['tasks']
    td = (prog.get('task-defaults') or {}).get('requires') or []

    def req(t):
        r = set(tasks[t].get('requires') or []) | set(td)
        r.discard(t)
        return sorted(r)

    closure, todo = set(), [target]
    while todo:
        t = todo.pop()
        if t in closure:
            continue
        closure.add(t)
        todo.extend(req(t))
    outcomes = {}
    seen = set()

    def result_of(t):
        key = tasks[t].get('key', t)
        seq = results.get(key) or ['S']
        return SUCCESS if seq[0] == 'S' or (
            isinstance(seq[0], (list, tuple)) and seq[0][0] == 'S') else ERROR

    def rec(state):
        k = freeze(sorted(state.items()))
        if k in seen:
            return
        seen.add(k)
        # start everything that is ready
        changed = True
        state = dict(state)
        while changed:
            changed = False
            for t in sorted(closure):
                if t not in state and all(state.get(r) == SUCCESS
                                          for r in req(t)):
                    state[t] = RUNNING
                    changed = True
        running = [t for t, s in state.items() if s == RUNNING]
        if not running:
            wf = SUCCESS if all(state.get(t) == SUCCESS for t in closure) \
                else ERROR
            out = {'wf': wf,
                   'tasks': sorted(([t, s, {}, {}] for t, s in state.items()),
                                   key=freeze),
                   'output': None, 'flags': ['reverse']}
            outcomes[freeze(out)] = out
            return
        for t in running:
            s2 = dict(state)
            s2[t] = result_of(t)
            rec(s2)

    rec({})
    outs = list(outcomes.values())
    return {'outcomes': outs, 'confluent': len(outs) == 1,
            'truncated': False}
