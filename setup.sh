#!/bin/sh
# Offline setup: nothing to build; verify that every seam the harness patches
# still exists in the tree under test.
cd "$(dirname "$0")" || exit 2
export PYTHONHASHSEED=0 PYTHONDONTWRITEBYTECODE=1
mkdir -p evidence/replays
exec /venv/bin/python -m mc.selftest
